//! Native replay of concrete cases against the real crate (public API only).
//! One request per input line, fields separated by TAB; one response line per request.
mod gen_ops;
mod ops;
mod util;

use std::io::{self, BufRead, Write};
use std::panic;

fn main() {
    panic::set_hook(Box::new(|_| {}));
    let stdin = io::stdin();
    let stdout = io::stdout();
    let mut out = stdout.lock();
    for line in stdin.lock().lines() {
        let line = line.expect("read");
        let f: Vec<&str> = line.split('\t').collect();
        let res = panic::catch_unwind(|| ops::dispatch(&f));
        let s = match res {
            Ok(s) => s,
            Err(e) => {
                let msg = if let Some(s) = e.downcast_ref::<&str>() {
                    s.to_string()
                } else if let Some(s) = e.downcast_ref::<String>() {
                    s.clone()
                } else {
                    "?".to_string()
                };
                format!("PANIC {}", msg.replace('\n', " "))
            }
        };
        writeln!(out, "{}", s).unwrap();
    }
}
