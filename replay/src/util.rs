use bigdecimal::BigDecimal;
use num_bigint::BigInt;
use std::str::FromStr;

pub fn p_big(s: &str) -> BigInt {
    BigInt::from_str(s).expect("bad integer literal")
}

pub fn p_dec(s: &str) -> BigDecimal {
    let k = s.rfind(':').expect("decimal literal needs int:scale");
    let i = p_big(&s[..k]);
    let sc: i64 = s[k + 1..].parse().expect("bad scale");
    BigDecimal::new(i, sc)
}

pub fn p_prim<T: FromStr>(s: &str) -> T
where
    <T as FromStr>::Err: std::fmt::Debug,
{
    s.parse::<T>().expect("bad primitive literal")
}

pub fn p_f32(s: &str) -> f32 {
    let bits = u32::from_str_radix(s.trim_start_matches("0x"), 16).expect("bad f32 bits");
    f32::from_bits(bits)
}

pub fn p_f64(s: &str) -> f64 {
    let bits = u64::from_str_radix(s.trim_start_matches("0x"), 16).expect("bad f64 bits");
    f64::from_bits(bits)
}

pub fn f_dec(d: &BigDecimal) -> String {
    let (i, s) = d.as_bigint_and_exponent();
    format!("{}:{}", i, s)
}

pub fn f_opt_dec(d: &Option<BigDecimal>) -> String {
    match d {
        Some(d) => f_dec(d),
        None => "None".to_string(),
    }
}
