use crate::gen_ops;
use crate::util::*;
use bigdecimal::*;
use num_bigint::{BigInt, ToBigInt};
use num_traits::{FromPrimitive, ToPrimitive};

pub fn dispatch(f: &[&str]) -> String {
    match f[0] {
        "binop" => gen_ops::binop(f[1], f[2], f[3], f[4], f[5]),
        "unop" => unop(f[1], f[2]),
        "with_scale_round" => f_dec(&p_dec(f[1]).with_scale_round(f[2].parse().unwrap(), p_mode(f[3]))),
        "with_scale" => f_dec(&p_dec(f[1]).with_scale(f[2].parse().unwrap())),
        "round" => f_dec(&p_dec(f[1]).round(f[2].parse().unwrap())),
        "round_pair" => p_mode(f[1]).round_pair(p_sign(f[2]), (f[3].parse().unwrap(), f[4].parse().unwrap()), f[5] == "true").to_string(),
        "round_u32" => p_mode(f[1]).round_u32(std::num::NonZeroU8::new(f[3].parse().unwrap()).unwrap(), p_sign(f[2]), f[4].parse().unwrap(), f[5] == "true").to_string(),
        "with_prec" => f_dec(&p_dec(f[1]).with_prec(f[2].parse().unwrap())),
        "prec_round" => prec_round(f[1], f[2], f[3], f[4], f[5]),
        "ctx_add" => ctx_add(f[1], f[2], f[3], f[4], f[5], f[6], f[7]),
        "digits" => { let x = p_dec(f[2]); if f[1] == "digits" { x.digits().to_string() } else { x.to_ref().count_digits().to_string() } }
        "accessors" => accessors(f[1]),
        "to_owned_with_scale" => f_dec(&p_dec(f[1]).to_ref().to_owned_with_scale(f[2].parse().unwrap())),
        "sum" => { let items: Vec<BigDecimal> = if f[2].is_empty() { vec![] } else { f[2].split(',').map(p_dec).collect() };
                   if f[1] == "ref" { f_dec(&items.iter().sum::<BigDecimal>()) } else { f_dec(&items.into_iter().sum::<BigDecimal>()) } }
        "cmp" => cmp_op(f[1], f[2], f[3]),
        "hash" => hash_op(f[1]),
        "from_float" => from_float(f[1], f[2], f[3]),
        "fmt_roundtrip" => fmt_roundtrip(f[1], f[2]),
        "parse" => parse_op(f[1], f[2]),
        "fmt_prec" => fmt_prec(f[1], f[2], f[3], f[4]),
        "config" => { let c = Context::default(); format!("{} {:?}", c.precision(), c.rounding_mode()) }
        "sqrt" => sqrt_op(f[1], f[2], f[3], f[4]),
        "cbrt" => { let x = p_dec(f[1]); f_dec(&x.cbrt_with_context(&ctx(f[2], f[3]))) }
        "to_prim" => to_prim(f[1], f[2], f[3]),
        "to_bigint" => match p_dec(f[1]).to_bigint() { Some(v) => v.to_string(), None => "None".to_string() },
        "is_integer" => p_dec(f[1]).is_integer().to_string(),
        "from_prim" => from_prim(f[1], f[2]),
        "from_pair" => from_pair(f[1], f[2], f[3]),
        "from_primitive" => from_primitive(f[1], f[2]),
        _ => format!("UNKNOWN-OP {}", f[0]),
    }
}

fn unop(name: &str, a: &str) -> String {
    let x = p_dec(a);
    match name {
        "neg" => f_dec(&(-x)),
        "neg_ref" => f_dec(&(-&x)),
        "neg_decref" => f_dec(&(-x.to_ref()).to_owned()),
        "abs" => f_dec(&x.abs()),
        "signed_abs" => f_dec(&num_traits::Signed::abs(&x)),
        "double" => f_dec(&x.double()),
        "half" => f_dec(&x.half()),
        "square" => f_dec(&x.square()),
        "cube" => f_dec(&x.cube()),
        "normalized" => f_dec(&x.normalized()),
        "to_ref_to_owned" => f_dec(&x.to_ref().to_owned()),
        "clone" => f_dec(&x.clone()),
        _ => format!("UNKNOWN-UNOP {}", name),
    }
}

fn opt<T: ToString>(v: Option<T>) -> String {
    match v {
        Some(v) => v.to_string(),
        None => "None".to_string(),
    }
}

fn to_prim(form: &str, target: &str, a: &str) -> String {
    let x = p_dec(a);
    if form == "val" {
        match target {
            "i64" => opt(x.to_i64()),
            "i128" => opt(x.to_i128()),
            "u64" => opt(x.to_u64()),
            "u128" => opt(x.to_u128()),
            "f64" => match x.to_f64() { Some(g) => format!("0x{:x}", g.to_bits()), None => "None".to_string() },
            "f32" => match x.to_f32() { Some(g) => format!("0x{:x}", g.to_bits()), None => "None".to_string() },
            _ => "UNKNOWN-TARGET".to_string(),
        }
    } else {
        let r = x.to_ref();
        match target {
            "i64" => opt(r.to_i64()),
            "i128" => opt(r.to_i128()),
            "u64" => opt(r.to_u64()),
            "u128" => opt(r.to_u128()),
            "f64" => match r.to_f64() { Some(g) => format!("0x{:x}", g.to_bits()), None => "None".to_string() },
            "f32" => match r.to_f32() { Some(g) => format!("0x{:x}", g.to_bits()), None => "None".to_string() },
            _ => "UNKNOWN-TARGET".to_string(),
        }
    }
}

macro_rules! from_prim_arms {
    ($ty:expr, $v:expr, $($t:ident),*) => {
        match $ty {
            $( stringify!($t) => { let n: $t = p_prim($v); f_dec(&BigDecimal::from(n)) } )*
            $( concat!("&", stringify!($t)) => { let n: $t = p_prim($v); f_dec(&BigDecimal::from(&n)) } )*
            "num_bigint::BigInt" | "BigInt" => f_dec(&BigDecimal::from(p_big($v))),
            _ => "UNKNOWN-TYPE".to_string(),
        }
    };
}

fn from_prim(ty: &str, v: &str) -> String {
    from_prim_arms!(ty, v, u8, u16, u32, u64, u128, i8, i16, i32, i64, i128)
}

macro_rules! from_pair_arms {
    ($ty:expr, $v:expr, $s:expr, $($t:ident),*) => {
        match $ty {
            $( stringify!($t) => { let n: $t = p_prim($v); f_dec(&BigDecimal::from((n, $s))) } )*
            "num_bigint::BigInt" | "BigInt" => { let n: BigInt = p_big($v); f_dec(&BigDecimal::from((n, $s))) }
            _ => "UNKNOWN-TYPE".to_string(),
        }
    };
}

fn from_pair(ty: &str, v: &str, s: &str) -> String {
    let sc: i64 = s.parse().unwrap();
    from_pair_arms!(ty, v, sc, u8, u16, u32, u64, u128, i8, i16, i32, i64, i128)
}

fn from_primitive(ty: &str, v: &str) -> String {
    let r = match ty {
        "i64" => BigDecimal::from_i64(p_prim(v)),
        "u64" => BigDecimal::from_u64(p_prim(v)),
        "i128" => BigDecimal::from_i128(p_prim(v)),
        "u128" => BigDecimal::from_u128(p_prim(v)),
        _ => None,
    };
    f_opt_dec(&r)
}

pub fn p_mode(s: &str) -> RoundingMode {
    match s {
        "Up" => RoundingMode::Up,
        "Down" => RoundingMode::Down,
        "Ceiling" => RoundingMode::Ceiling,
        "Floor" => RoundingMode::Floor,
        "HalfUp" => RoundingMode::HalfUp,
        "HalfDown" => RoundingMode::HalfDown,
        "HalfEven" => RoundingMode::HalfEven,
        _ => panic!("bad mode"),
    }
}

pub fn p_sign(s: &str) -> num_bigint::Sign {
    match s {
        "Minus" => num_bigint::Sign::Minus,
        "NoSign" => num_bigint::Sign::NoSign,
        _ => num_bigint::Sign::Plus,
    }
}

fn ctx(p: &str, mode: &str) -> Context {
    Context::default().with_prec(p.parse::<u64>().unwrap()).unwrap().with_rounding_mode(p_mode(mode))
}

fn prec_round(kind: &str, form: &str, a: &str, p: &str, mode: &str) -> String {
    let x = p_dec(a);
    let c = ctx(p, mode);
    let r = match (kind, form) {
        ("with_precision_round", _) => x.with_precision_round(std::num::NonZeroU64::new(p.parse().unwrap()).unwrap(), p_mode(mode)),
        ("round_decimal", _) => c.round_decimal(x),
        ("round_with_context", _) => x.to_ref().round_with_context(&c),
        ("round_decimal_ref", "&BigDecimal") => c.round_decimal_ref(&x),
        ("round_decimal_ref", "BigDecimalRef") => c.round_decimal_ref(x.to_ref()),
        ("round_decimal_ref", "&BigInt") => { let (i, _) = x.into_bigint_and_exponent(); c.round_decimal_ref(&i) }
        _ => return "UNKNOWN-PREC-ROUND".to_string(),
    };
    f_dec(&r)
}

fn ctx_add(kind: &str, fa: &str, fb: &str, a: &str, b: &str, p: &str, mode: &str) -> String {
    let x = p_dec(a);
    let y = p_dec(b);
    let c = ctx(p, mode);
    let mut dest = BigDecimal::from(0);
    let r = match (kind, fa, fb) {
        ("add_refs", "&BigDecimal", "&BigDecimal") => c.add_refs(&x, &y),
        ("add_refs", "BigDecimalRef", "BigDecimalRef") => c.add_refs(x.to_ref(), y.to_ref()),
        ("add_refs", "&BigDecimal", "BigDecimalRef") => c.add_refs(&x, y.to_ref()),
        ("add_refs_into", "&BigDecimal", "&BigDecimal") => { c.add_refs_into(&x, &y, &mut dest); dest }
        ("add_refs_into", "BigDecimalRef", "BigDecimalRef") => { c.add_refs_into(x.to_ref(), y.to_ref(), &mut dest); dest }
        ("add_refs_into", "&BigDecimal", "BigDecimalRef") => { c.add_refs_into(&x, y.to_ref(), &mut dest); dest }
        _ => return "UNKNOWN-CTX-ADD".to_string(),
    };
    f_dec(&r)
}

fn accessors(a: &str) -> String {
    let x = p_dec(a);
    let k = a.rfind(':').unwrap();
    let i = p_big(&a[..k]);
    let s: i64 = a[k + 1..].parse().unwrap();
    let mut bad: Vec<&str> = vec![];
    if x.fractional_digit_count() != s { bad.push("fractional_digit_count"); }
    if x.as_bigint_and_exponent() != (i.clone(), s) { bad.push("as_bigint_and_exponent"); }
    { let (c, sc) = x.as_bigint_and_scale(); if *c != i || sc != s { bad.push("as_bigint_and_scale"); } }
    if x.clone().into_bigint_and_scale() != (i.clone(), s) { bad.push("into_bigint_and_scale"); }
    if x.clone().into_bigint_and_exponent() != (i.clone(), s) { bad.push("into_bigint_and_exponent"); }
    if x.sign() != i.sign() { bad.push("sign"); }
    let r = x.to_ref();
    if r.sign() != i.sign() { bad.push("ref sign"); }
    if r.fractional_digit_count() != s { bad.push("ref fractional_digit_count"); }
    if r.is_zero() != (i.sign() == num_bigint::Sign::NoSign) { bad.push("ref is_zero"); }
    if r.to_owned().as_bigint_and_exponent() != (i.clone(), s) { bad.push("to_owned"); }
    let mut d = BigDecimal::from(777);
    r.clone_into(&mut d);
    if d.as_bigint_and_exponent() != (i.clone(), s) { bad.push("clone_into"); }
    if r.abs().to_owned().as_bigint_and_exponent() != (num_traits::Signed::abs(&i), s) { bad.push("ref abs"); }
    if BigDecimal::new(i.clone(), s).as_bigint_and_exponent() != (i.clone(), s) { bad.push("new"); }
    if BigDecimal::from_bigint(i.clone(), s).as_bigint_and_exponent() != (i.clone(), s) { bad.push("from_bigint"); }
    if bad.is_empty() { "ok".to_string() } else { bad.join(",") }
}

fn cmp_op(func: &str, a: &str, b: &str) -> String {
    let x = p_dec(a);
    let y = p_dec(b);
    let ord = |o: std::cmp::Ordering| format!("{:?}", o);
    match func {
        "eq" => (x == y).to_string(),
        "ref_eq_ref" => (x.to_ref() == y.to_ref()).to_string(),
        "ref_eq_borrow" => (x.to_ref() == &y).to_string(),
        "cmp" => ord(x.cmp(&y)),
        "ref_cmp" => ord(x.to_ref().cmp(&y.to_ref())),
        "partial_cmp" => match x.partial_cmp(&y) { Some(o) => ord(o), None => "None".to_string() },
        "ref_partial_cmp" => match x.to_ref().partial_cmp(&y.to_ref()) { Some(o) => ord(o), None => "None".to_string() },
        _ => "UNKNOWN-CMP".to_string(),
    }
}

struct Rec(Vec<Vec<u8>>);
impl std::hash::Hasher for Rec {
    fn finish(&self) -> u64 { 0 }
    // every write call is recorded as its own chunk: "identical data" includes how it is split into calls
    fn write(&mut self, bytes: &[u8]) { self.0.push(bytes.to_vec()); }
}

fn hash_op(a: &str) -> String {
    use std::hash::Hash;
    let x = p_dec(a);
    let mut r = Rec(vec![]);
    x.hash(&mut r);
    r.0.iter().map(|c| c.iter().map(|b| b.to_string()).collect::<Vec<_>>().join(",")).collect::<Vec<_>>().join("|")
}

fn from_float(ty: &str, entry: &str, bits: &str) -> String {
    use std::convert::TryFrom;
    match (ty, entry) {
        ("f64", "roundtrip") => match BigDecimal::try_from(p_f64(bits)) {
            Ok(d) => match d.to_f64() { Some(g) => format!("0x{:x}", g.to_bits()), None => "None".to_string() },
            Err(_) => "Err".to_string(),
        },
        ("f32", "roundtrip") => match BigDecimal::try_from(p_f32(bits)) {
            Ok(d) => match d.to_f32() { Some(g) => format!("0x{:x}", g.to_bits()), None => "None".to_string() },
            Err(_) => "Err".to_string(),
        },
        ("f32", "try_from") => match BigDecimal::try_from(p_f32(bits)) { Ok(d) => f_dec(&d), Err(_) => "Err".to_string() },
        ("f64", "try_from") => match BigDecimal::try_from(p_f64(bits)) { Ok(d) => f_dec(&d), Err(_) => "Err".to_string() },
        ("f32", _) => match BigDecimal::from_f32(p_f32(bits)) { Some(d) => f_dec(&d), None => "Err".to_string() },
        ("f64", _) => match BigDecimal::from_f64(p_f64(bits)) { Some(d) => f_dec(&d), None => "Err".to_string() },
        _ => "UNKNOWN-FLOAT".to_string(),
    }
}

fn fmt_roundtrip(func: &str, a: &str) -> String {
    use std::str::FromStr;
    let x = p_dec(a);
    let text = match func {
        "display" => format!("{}", x),
        "display_ref" => format!("{}", x.to_ref()),
        "lowerexp" => format!("{:e}", x),
        "lowerexp_ref" => format!("{:e}", x.to_ref()),
        "upperexp" => format!("{:E}", x),
        "upperexp_ref" => format!("{:E}", x.to_ref()),
        "to_scientific_notation" => x.to_scientific_notation(),
        "to_engineering_notation" => x.to_engineering_notation(),
        "to_plain_string" => x.to_plain_string(),
        _ => return "UNKNOWN-FMT".to_string(),
    };
    let parsed = match BigDecimal::from_str(&text) { Ok(d) => f_dec(&d), Err(_) => "ERR".to_string() };
    format!("{}\x1f{}", text, parsed)
}

fn parse_op(hex: &str, radix: &str) -> String {
    let bytes: Vec<u8> = (0..hex.len() / 2).map(|i| u8::from_str_radix(&hex[2 * i..2 * i + 2], 16).unwrap()).collect();
    let radix: u32 = radix.parse().unwrap();
    match BigDecimal::parse_bytes(&bytes, radix) {
        Some(d) => {
            // from_str_radix must agree with parse_bytes on valid UTF-8
            let s = std::str::from_utf8(&bytes).unwrap();
            match <BigDecimal as num_traits::Num>::from_str_radix(s, radix) { Ok(d2) if d2 == d => f_dec(&d), _ => "DISAGREE".to_string() }
        }
        None => "Err".to_string(),
    }
}

fn fmt_prec(kind: &str, a: &str, n: &str, flags: &str) -> String {
    let x = p_dec(a);
    let p: usize = n.parse().unwrap();
    match (kind, flags) {
        ("fixed", "plain") => format!("{:.*}", p, x),
        ("fixed", _) => format!("{:*>+40.*}", p, x),
        ("e", "plain") => format!("{:.*e}", p, x),
        ("e", _) => format!("{:*>+40.*e}", p, x),
        ("E", "plain") => format!("{:.*E}", p, x),
        ("E", _) => format!("{:*>+40.*E}", p, x),
        _ => "UNKNOWN-FMT".to_string(),
    }
}

fn sqrt_op(entry: &str, a: &str, p: &str, mode: &str) -> String {
    let x = p_dec(a);
    let c = ctx(p, mode);
    match entry {
        "sqrt_with_context" => f_opt_dec(&x.sqrt_with_context(&c)),
        "ref_sqrt_with_context" => f_opt_dec(&x.to_ref().sqrt_with_context(&c)),
        "ref_sqrt_abs" => f_dec(&x.to_ref().sqrt_abs_with_context(&c)),
        "ref_sqrt_copysign" => f_dec(&x.to_ref().sqrt_copysign_with_context(&c)),
        _ => "UNKNOWN-SQRT".to_string(),
    }
}
