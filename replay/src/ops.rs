use crate::gen_ops;
use crate::util::*;
use bigdecimal::*;

pub fn dispatch(f: &[&str]) -> String {
    match f[0] {
        "binop" => gen_ops::binop(f[1], f[2], f[3], f[4], f[5]),
        "unop" => unop(f[1], f[2]),
        _ => format!("UNKNOWN-OP {}", f[0]),
    }
}

fn unop(name: &str, a: &str) -> String {
    let x = p_dec(a);
    match name {
        "neg" => f_dec(&(-x)),
        "neg_ref" => f_dec(&(-&x)),
        "neg_decref" => f_dec(&(-x.to_ref()).to_owned()),
        "abs" => f_dec(&x.abs()),
        "signed_abs" => f_dec(&num_traits::Signed::abs(&x)),
        "double" => f_dec(&x.double()),
        "half" => f_dec(&x.half()),
        "square" => f_dec(&x.square()),
        "cube" => f_dec(&x.cube()),
        "normalized" => f_dec(&x.normalized()),
        "to_ref_to_owned" => f_dec(&x.to_ref().to_owned()),
        "clone" => f_dec(&x.clone()),
        _ => format!("UNKNOWN-UNOP {}", name),
    }
}
