//! Native replay through the real serde / serde_json stack (bigdecimal feature "serde-json").
use bigdecimal::BigDecimal;
use serde::{Deserialize, Serialize};
use std::io::{self, BufRead, Write};
use std::panic;
use std::str::FromStr;

#[derive(Serialize, Deserialize)]
struct JsonNum {
    #[serde(with = "bigdecimal::serde::json_num")]
    v: BigDecimal,
}

#[derive(Serialize, Deserialize)]
struct JsonOpt {
    #[serde(with = "bigdecimal::serde::json_num_option")]
    v: Option<BigDecimal>,
}

fn p_dec(s: &str) -> BigDecimal {
    let k = s.rfind(':').unwrap();
    BigDecimal::new(num_bigint_from(&s[..k]), s[k + 1..].parse().unwrap())
}

fn num_bigint_from(s: &str) -> bigdecimal::num_bigint::BigInt {
    bigdecimal::num_bigint::BigInt::from_str(s).unwrap()
}

fn f_dec(d: &BigDecimal) -> String {
    let (i, s) = d.as_bigint_and_exponent();
    format!("{}:{}", i, s)
}

fn dispatch(f: &[&str]) -> String {
    match f[1] {
        "string" => {
            let x = p_dec(f[2]);
            let ser = match serde_json::to_string(&x) { Ok(s) => s, Err(e) => return format!("SER-ERR {}", e) };
            match serde_json::from_str::<BigDecimal>(&ser) { Ok(d) => format!("{}\x1f{}", ser, f_dec(&d)), Err(e) => format!("{}\x1fERR {}", ser, e) }
        }
        "json_num" => {
            let x = JsonNum { v: p_dec(f[2]) };
            let ser = match serde_json::to_string(&x) { Ok(s) => s, Err(e) => return format!("SER-ERR {}", e) };
            match serde_json::from_str::<JsonNum>(&ser) { Ok(d) => format!("{}\x1f{}", ser, f_dec(&d.v)), Err(e) => format!("{}\x1fERR {}", ser, e) }
        }
        "json_option" => {
            let x = JsonOpt { v: Some(p_dec(f[2])) };
            let ser = match serde_json::to_string(&x) { Ok(s) => s, Err(e) => return format!("SER-ERR {}", e) };
            match serde_json::from_str::<JsonOpt>(&ser) { Ok(d) => format!("{}\x1f{}", ser, d.v.map(|v| f_dec(&v)).unwrap_or("None".to_string())), Err(e) => format!("{}\x1fERR {}", ser, e) }
        }
        "json_de" => {
            let doc = format!("{{\"v\": {}}}", f[2]);
            match serde_json::from_str::<JsonNum>(&doc) { Ok(d) => f_dec(&d.v), Err(e) => format!("ERR {}", e) }
        }
        "json_option_de" => {
            let bytes: Vec<u8> = (0..f[2].len() / 2).map(|i| u8::from_str_radix(&f[2][2 * i..2 * i + 2], 16).unwrap()).collect();
            let doc = format!("{{\"v\": {}}}", String::from_utf8(bytes).unwrap());
            match serde_json::from_str::<JsonOpt>(&doc) { Ok(d) => d.v.map(|v| f_dec(&v)).unwrap_or("None".to_string()), Err(e) => format!("ERR {}", e) }
        }
        _ => "UNKNOWN-SERDE".to_string(),
    }
}

fn main() {
    panic::set_hook(Box::new(|_| {}));
    let stdin = io::stdin();
    let stdout = io::stdout();
    let mut out = stdout.lock();
    for line in stdin.lock().lines() {
        let line = line.unwrap();
        let f: Vec<&str> = line.split('\t').collect();
        let s = match panic::catch_unwind(|| dispatch(&f)) { Ok(s) => s, Err(_) => "PANIC".to_string() };
        writeln!(out, "{}", s.replace('\n', " ")).unwrap();
    }
}
