//! Native replay through the real serde / serde_json stack (bigdecimal feature "serde-json").
use bigdecimal::BigDecimal;
use serde::{Deserialize, Serialize};
use std::io::{self, BufRead, Write};
use std::panic;
use std::str::FromStr;

#[derive(Serialize, Deserialize)]
struct JsonNum {
    #[serde(with = "bigdecimal::serde::json_num")]
    v: BigDecimal,
}

#[derive(Serialize, Deserialize)]
struct JsonOpt {
    #[serde(with = "bigdecimal::serde::json_num_option")]
    v: Option<BigDecimal>,
}

fn p_dec(s: &str) -> BigDecimal {
    let k = s.rfind(':').unwrap();
    BigDecimal::new(num_bigint_from(&s[..k]), s[k + 1..].parse().unwrap())
}

fn num_bigint_from(s: &str) -> bigdecimal::num_bigint::BigInt {
    bigdecimal::num_bigint::BigInt::from_str(s).unwrap()
}

fn f_dec(d: &BigDecimal) -> String {
    let (i, s) = d.as_bigint_and_exponent();
    format!("{}:{}", i, s)
}

fn dispatch(f: &[&str]) -> String {
    match f[1] {
        "string" => {
            let x = p_dec(f[2]);
            let ser = match serde_json::to_string(&x) { Ok(s) => s, Err(e) => return format!("SER-ERR {}", e) };
            match serde_json::from_str::<BigDecimal>(&ser) { Ok(d) => format!("{}\x1f{}", ser, f_dec(&d)), Err(e) => format!("{}\x1fERR {}", ser, e) }
        }
        "json_num" => {
            let x = JsonNum { v: p_dec(f[2]) };
            let ser = match serde_json::to_string(&x) { Ok(s) => s, Err(e) => return format!("SER-ERR {}", e) };
            match serde_json::from_str::<JsonNum>(&ser) { Ok(d) => format!("{}\x1f{}", ser, f_dec(&d.v)), Err(e) => format!("{}\x1fERR {}", ser, e) }
        }
        "json_option" => {
            let x = JsonOpt { v: Some(p_dec(f[2])) };
            let ser = match serde_json::to_string(&x) { Ok(s) => s, Err(e) => return format!("SER-ERR {}", e) };
            match serde_json::from_str::<JsonOpt>(&ser) { Ok(d) => format!("{}\x1f{}", ser, d.v.map(|v| f_dec(&v)).unwrap_or("None".to_string())), Err(e) => format!("{}\x1fERR {}", ser, e) }
        }
        "json_de" => {
            let doc = format!("{{\"v\": {}}}", f[2]);
            match serde_json::from_str::<JsonNum>(&doc) { Ok(d) => f_dec(&d.v), Err(e) => format!("ERR {}", e) }
        }
        "json_option_de" => {
            let bytes: Vec<u8> = (0..f[2].len() / 2).map(|i| u8::from_str_radix(&f[2][2 * i..2 * i + 2], 16).unwrap()).collect();
            let doc = format!("{{\"v\": {}}}", String::from_utf8(bytes).unwrap());
            match serde_json::from_str::<JsonOpt>(&doc) { Ok(d) => d.v.map(|v| f_dec(&v)).unwrap_or("None".to_string()), Err(e) => format!("ERR {}", e) }
        }
        // tokens handed over by a non-JSON format: serde's own value deserializers drive the visitor
        "de_token" => {
            use serde::de::value::{Error as VErr, F32Deserializer, F64Deserializer, I128Deserializer, I64Deserializer, U128Deserializer, U64Deserializer};
            let r: Result<BigDecimal, VErr> = match f[2] {
                "f64" => BigDecimal::deserialize(F64Deserializer::<VErr>::new(f64::from_bits(u64::from_str_radix(f[3].trim_start_matches("0x"), 16).unwrap()))),
                "f32" => BigDecimal::deserialize(F32Deserializer::<VErr>::new(f32::from_bits(u32::from_str_radix(f[3].trim_start_matches("0x"), 16).unwrap()))),
                "i64" => BigDecimal::deserialize(I64Deserializer::<VErr>::new(f[3].parse().unwrap())),
                "u64" => BigDecimal::deserialize(U64Deserializer::<VErr>::new(f[3].parse().unwrap())),
                "i128" => BigDecimal::deserialize(I128Deserializer::<VErr>::new(f[3].parse().unwrap())),
                "u128" => BigDecimal::deserialize(U128Deserializer::<VErr>::new(f[3].parse().unwrap())),
                _ => return "UNKNOWN-TOKEN".to_string(),
            };
            match r { Ok(d) => f_dec(&d), Err(e) => format!("ERR {}", e) }
        }
        _ => "UNKNOWN-SERDE".to_string(),
    }
}

fn main() {
    panic::set_hook(Box::new(|_| {}));
    let stdin = io::stdin();
    let stdout = io::stdout();
    let mut out = stdout.lock();
    for line in stdin.lock().lines() {
        let line = line.unwrap();
        let f: Vec<&str> = line.split('\t').collect();
        let s = match panic::catch_unwind(|| dispatch(&f)) { Ok(s) => s, Err(_) => "PANIC".to_string() };
        writeln!(out, "{}", s.replace('\n', " ")).unwrap();
    }
}
