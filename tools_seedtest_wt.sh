#!/bin/bash
# usage: tools_seedtest_wt.sh <seed-id> <PROP> [<PROP>...]
# Runs the checks against a throw-away worktree of /repo with the seeded change applied (VERIF_REPO), so that /repo itself is
# never touched and other runs are not disturbed.  Evidence and replays of such a run go to the alternative scratch dir.
set -u
id="$1"; shift
wt=/var/tmp/seedwt_$id
rm -rf "$wt"; git -C /repo worktree prune
git -C /repo worktree add --detach "$wt" HEAD >/dev/null 2>&1 || { echo "worktree failed"; exit 3; }
git -C "$wt" apply /verif/seeded/$id/patch.diff || { echo "patch does not apply"; git -C /repo worktree remove --force "$wt"; exit 3; }
for p in "$@"; do
  (cd /verif && VERIF_REPO="$wt" timeout 2400 ./check "$p" > /tmp/seedtest_${id}_$p.log 2>&1; echo "EXIT $?" >> /tmp/seedtest_${id}_$p.log)
  echo "== $id/$p: $(grep -c '^VIOLATION' /tmp/seedtest_${id}_$p.log) violation lines; $(tail -1 /tmp/seedtest_${id}_$p.log)"
  grep -E "^VIOLATION|^  \{" /tmp/seedtest_${id}_$p.log | head -4 | cut -c1-400
done
# remove the worktree and everything built from it
tag=$(python3 -c "import hashlib,os,sys;print(hashlib.sha256(os.path.realpath(sys.argv[1]).encode()).hexdigest()[:10])" "$wt")
git -C /repo worktree remove --force "$wt"; rm -rf "/var/tmp/bigdecimal-verif-alt-$tag"
