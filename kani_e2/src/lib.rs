//! E2: independent cross-check of the two public rounding kernels with Kani/CBMC (bit-precise, over the compiled code).
//! The reference is the textbook definition of the seven modes on the exact rational value, written without sharing any
//! code with the crate.
#![allow(dead_code)]
use bigdecimal::RoundingMode;
use num_bigint::Sign;

/// textbook: should magnitude q (last kept digit lhs) be incremented, given the discarded tail = rhs.rest
fn spec_up(mode: RoundingMode, negative: bool, lhs: u8, rhs: u8, rest_zero: bool) -> bool {
    let tail_zero = rhs == 0 && rest_zero;
    if tail_zero {
        return false;
    }
    // compare tail with one half
    let gt_half = rhs > 5 || (rhs == 5 && !rest_zero);
    let eq_half = rhs == 5 && rest_zero;
    match mode {
        RoundingMode::Up => true,
        RoundingMode::Down => false,
        RoundingMode::Ceiling => !negative,
        RoundingMode::Floor => negative,
        RoundingMode::HalfUp => gt_half || eq_half,
        RoundingMode::HalfDown => gt_half,
        RoundingMode::HalfEven => gt_half || (eq_half && lhs % 2 == 1),
    }
}

fn any_mode(k: u8) -> RoundingMode {
    match k % 7 {
        0 => RoundingMode::Up,
        1 => RoundingMode::Down,
        2 => RoundingMode::Ceiling,
        3 => RoundingMode::Floor,
        4 => RoundingMode::HalfUp,
        5 => RoundingMode::HalfDown,
        _ => RoundingMode::HalfEven,
    }
}

fn any_sign(k: u8) -> Sign {
    match k % 3 {
        0 => Sign::Minus,
        1 => Sign::NoSign,
        _ => Sign::Plus,
    }
}

#[cfg(kani)]
mod proofs {
    use super::*;

    #[kani::proof]
    fn round_pair_matches_textbook() {
        let mode = any_mode(kani::any());
        let sign = any_sign(kani::any());
        let lhs: u8 = kani::any();
        let rhs: u8 = kani::any();
        kani::assume(lhs <= 9 && rhs <= 9);
        let tz: bool = kani::any();
        let r = mode.round_pair(sign, (lhs, rhs), tz);
        let expect = if spec_up(mode, sign == Sign::Minus, lhs, rhs, tz) { lhs + 1 } else { lhs };
        assert!(r == expect);
        kani::cover!(r == 10);
        kani::cover!(r == lhs && rhs == 5);
    }

    fn round_u32_at(at: u8, pow: u32) {
        let mode = any_mode(kani::any());
        let sign = any_sign(kani::any());
        let value: u32 = kani::any();
        let tz: bool = kani::any();
        // the function returns full * 10^at: keep the result inside u32
        kani::assume(value / pow < u32::MAX / pow);
        let r = mode.round_u32(core::num::NonZeroU8::new(at).unwrap(), sign, value, tz);
        // reference: keep the digits from position `at` upward, round on the digit below and the rest
        let top = value / pow;
        let low = value % pow;
        let shift = pow / 10;
        let rhs = (low / shift) as u8;
        let rest_zero = (low % shift == 0) && tz;
        let lhs = (top % 10) as u8;
        let up = spec_up(mode, sign == Sign::Minus, lhs, rhs, rest_zero);
        let expect = (top + if up { 1 } else { 0 }) * pow;
        assert!(r == expect);
        kani::cover!(up && lhs == 9);
    }

    // one harness per digit position: the position is concrete (divisions by constants), value/sign/mode/flag symbolic;
    // unwind 6 covers the square-and-multiply loop of 10u32.pow(at - 1) (checked by the unwinding assertion)
    macro_rules! round_u32_harness {
        ($name:ident, $at:expr, $pow:expr) => {
            #[kani::proof]
            #[kani::unwind(6)]
            fn $name() { round_u32_at($at, $pow) }
        };
    }
    round_u32_harness!(round_u32_at_1, 1, 10);
    round_u32_harness!(round_u32_at_2, 2, 100);
    round_u32_harness!(round_u32_at_3, 3, 1_000);
    round_u32_harness!(round_u32_at_4, 4, 10_000);
    round_u32_harness!(round_u32_at_5, 5, 100_000);
    round_u32_harness!(round_u32_at_6, 6, 1_000_000);
    round_u32_harness!(round_u32_at_7, 7, 10_000_000);
    round_u32_harness!(round_u32_at_8, 8, 100_000_000);
    round_u32_harness!(round_u32_at_9, 9, 1_000_000_000);

    /// vacuity witness: must come back FAILED
    #[kani::proof]
    fn witness_reaches_assertion() {
        let mode = any_mode(kani::any());
        let lhs: u8 = kani::any();
        kani::assume(lhs <= 9);
        let r = mode.round_pair(Sign::Plus, (lhs, 7), false);
        assert!(r == lhs);
    }
}
