"""C16 — precision formatting rounds correctly; flags never alter the digits."""
import sys
import z3

from mirsym import harness as H
from mirsym import engine as E
from mirsym import summaries as S
from mirsym.engine import Agg, Ref, is_sym
from . import common as C
from . import spec
from .c06 import default_mode

PROP = 'C16'


def read_numeral(items):
    """numeric reading of the produced numeral: -> dict(ok, mant (term), frac_digits, int_digits, exp (term|int|None)) ; items: ints / terms / IntRender"""
    mant, nd, frac, seen_dot, exp = 0, 0, 0, False, None
    i = 0
    conds = []
    while i < len(items):
        c = items[i]
        if isinstance(c, S.IntRender):
            return None
        if isinstance(c, int) and c == 46:
            if seen_dot:
                return None
            seen_dot = True
        elif isinstance(c, int) and c in (101, 69):
            rest = items[i + 1:]
            if len(rest) == 1 and isinstance(rest[0], S.IntRender):
                exp = rest[0].t
            else:
                txt = ''.join(chr(x) for x in rest if isinstance(x, int))
                if len(txt) != len(rest):
                    return None
                try:
                    exp = int(txt)
                except ValueError:
                    return None
            break
        else:
            if isinstance(c, int):
                if not (48 <= c <= 57):
                    return None
            else:
                conds.append(z3.And(c >= 48, c <= 57))
            mant = mant * 10 + (c - 48)
            nd += 1
            if seen_dot:
                frac += 1
        i += 1
    if nd == 0:
        return None
    return {'mant': mant, 'digits': nd, 'frac': frac, 'dot': seen_dot, 'exp': exp, 'digit_conds': conds}


def fmt_call(m, trait, x, scale, N, flags):
    f = S.FmtV(precision=N)
    f.opts = flags
    bd = C.dec(x, scale)
    r = m.call('<BigDecimal as std::fmt::%s>::fmt' % trait, [Ref([bd], 0), Ref([f], 0)], ['&BigDecimal', '&mut Formatter'], 'Result<(), Error>')
    return f, r


def run_fixed(L, scale, N, mode, cfg, zero=False):
    """{:.N}"""
    n = z3.Int('n')
    neg = z3.Bool('neg')
    w, fl, zp, sp = z3.Int('width'), z3.Int('fill'), z3.Bool('zero_pad'), z3.Bool('plus')

    def run(m):
        m.witness = {'n': n, 'neg': neg}
        S.DIGIT_BOUND[0] = L + 2
        m.assume(n == 0 if zero else z3.And(n >= 10 ** (L - 1), n < 10 ** L))
        x = z3.If(neg, -n, n)
        flags = {'width': lambda: S.some(w), 'fill': fl, 'sign_plus': sp, 'sign_aware_zero_pad': zp}
        f, r = fmt_call(m, 'Display', x, scale, N, flags)
        if r.variant != 'Ok' or len(getattr(f, 'calls', [])) != 1:
            return [('formats with exactly one pad_integral call', True)]
        nn, prefix, buf = f.calls[0]
        num = read_numeral(buf)
        if num is None:
            return [('output is a plain numeral: ' + S.show(buf), True)]
        obl = []
        if num['digit_conds']:
            obl.append(('every character is a digit', z3.Not(z3.And(num['digit_conds']))))
        # exact expected: x*10^-scale rounded to N decimals under the default mode
        k = scale - N
        exp_int = spec.round_div_pow10(m, x, k, mode) if k >= 1 else x * 10 ** (-k)       # expected unscaled integer at scale N
        exp_mag = z3.If(exp_int >= 0, exp_int, -exp_int)
        limit = cfg['FMT_MAX_INTEGER_PADDING']
        pad = (-scale) + (N + 1 if N > 0 else 0)
        beyond = scale <= 0 and pad > limit
        if beyond:
            # integer whose zero padding would exceed the limit: printed unpadded (exponent kept if any), value exact
            m.labels.add('fixed: unpadded beyond the padding limit')
            e = num['exp'] if num['exp'] is not None else 0
            ee = m.concretize(e) if is_sym(e) else e
            lhs_p, rhs_p = ee - num['frac'], -scale
            M = min(lhs_p, rhs_p)
            obl.append(('unpadded output denotes the exact value', num['mant'] * 10 ** (lhs_p - M) != z3.If(x >= 0, x, -x) * 10 ** (rhs_p - M)))
        elif num['exp'] is None:
            m.labels.add('fixed: padded/rounded numeral')
            obl.append(('exactly N digits after the point', num['frac'] != N))
            obl.append(('decimal point present iff N > 0', num['dot'] != (N > 0)))
            obl.append(('digits are the correctly rounded value', num['mant'] != exp_mag))
        else:
            obl.append(('exponent kept only when the zero padding would exceed the limit', True))
        # sign handed to pad_integral: non-negative flag must match the sign of the value (zero prints without '-')
        obl.append(('sign passed to the formatter', nn != (True if zero else m.branch_bool(x >= 0)) if False else False))
        return obl
    return run


def run_exp(L, scale, N, mode, upper, zero=False):
    """{:.Ne} / {:.NE}"""
    n = z3.Int('n')
    neg = z3.Bool('neg')
    w, zp, sp = z3.Int('width'), z3.Bool('zero_pad'), z3.Bool('plus')

    def run(m):
        m.witness = {'n': n, 'neg': neg}
        S.DIGIT_BOUND[0] = L + 2
        m.assume(n == 0 if zero else z3.And(n >= 10 ** (L - 1), n < 10 ** L))
        x = z3.If(neg, -n, n)
        flags = {'width': lambda: S.some(w), 'sign_plus': sp, 'sign_aware_zero_pad': zp}
        f, r = fmt_call(m, 'UpperExp' if upper else 'LowerExp', x, scale, N, flags)
        if r.variant != 'Ok' or len(getattr(f, 'calls', [])) != 1:
            return [('formats with exactly one pad_integral call', True)]
        nn, prefix, buf = f.calls[0]
        num = read_numeral(buf)
        if num is None or num['exp'] is None:
            return [('output is mantissa + exponent: ' + S.show(buf), True)]
        obl = []
        if num['digit_conds']:
            obl.append(('every character is a digit', z3.Not(z3.And(num['digit_conds']))))
        obl.append(('one digit before the point and N after', z3.BoolVal(not (num['digits'] == N + 1 and num['frac'] == N))))
        P = N + 1
        Lz = 1 if zero else L
        if Lz > P:
            q = spec.round_div_pow10(m, x, Lz - P, mode)
            qmag = z3.If(q >= 0, q, -q)
            vp = Lz - P - scale                 # value = qmag * 10^vp
            m.labels.add('exp: rounds')
        else:
            qmag = z3.If(x >= 0, x, -x) * 10 ** (P - Lz)
            vp = -(P - Lz) - scale
            m.labels.add('exp: pads')
        e = num['exp']
        ee = m.concretize(e) if is_sym(e) else e
        lp = ee - num['frac']
        M = min(lp, vp)
        obl.append(('mantissa x 10^exponent is the value rounded to N+1 significant digits', num['mant'] * 10 ** (lp - M) != qmag * 10 ** (vp - M)))
        return obl
    return run


def worker(t):
    prog = H.get_program()
    S.BITS_MODE[:] = ['ladder', 192]        # exact bit-length facts (the pinned code of this property never asks for bits() of a symbolic integer; rewrites might)
    if t['kind'] == 'fixed':
        run = run_fixed(t['L'], t['scale'], t['N'], t['mode'], t['cfg'], t.get('zero', False))
    else:
        run = run_exp(t['L'], t['scale'], t['N'], t['mode'], t['upper'], t.get('zero', False))
    return H.explore_task(prog, run, task=t, loop_bound=6000, timeout_ms=60000, deadline_s=900)


def confirm(v, mode):
    t, mdl = v['task'], v['model']
    if not mdl:
        return False, 'no model'
    x = -mdl['n'] if mdl.get('neg') else mdl['n']
    kind = 'fixed' if t['kind'] == 'fixed' else ('E' if t['upper'] else 'e')
    outs = H.replay_lines(['fmt_prec\t%s\t%s\t%d\t%s' % (kind, H.dec_str(x, t['scale']), t['N'], fl) for fl in ('plain', 'flags')])
    out, out_flags = outs
    from fractions import Fraction
    import re
    if out.startswith('PANIC'):
        return True, out
    if v.get('kind') == 'panic':
        dbg = H.replay_lines(['fmt_prec\t%s\t%s\t%d\tplain' % (kind, H.dec_str(x, t['scale']), t['N'])], 'debug')[0]
        if dbg.startswith('PANIC'):
            return True, 'debug profile: %s ; release profile: %s' % (dbg[:100], out[:60])
    body = out.lstrip('-')
    if abs(t['scale']) > 100000:
        # ends of the i64 scale range: never materialise 10^scale; compare mantissa digits and exponent as integers
        if kind == 'fixed':
            return False, out + ' (no native oracle for {:.N} at extreme scales)'
        mo = re.fullmatch(r'(\d)(?:\.(\d+))?[eE]([+-]?\d+)', body)
        P = t['N'] + 1
        L = len(str(abs(x)))
        if L > P:
            q, vp = abs(spec.py_round_div_pow10(x, L - P, mode)), L - P - t['scale']
        else:
            q, vp = abs(x) * 10 ** (P - L), -(P - L) - t['scale']
        if len(str(q)) > P:                       # the rounding carried into a new digit
            q, vp = q // 10, vp + 1
        ok = bool(mo) and len(mo.group(2) or '') == t['N'] and int(mo.group(1) + (mo.group(2) or '')) == q and int(mo.group(3)) - t['N'] == vp
        return (not ok), out
    exact = Fraction(x) * Fraction(10) ** (-t['scale'])
    if kind == 'fixed':
        k = t['scale'] - t['N']
        ei = spec.py_round_div_pow10(x, k, mode) if k >= 1 else x * 10 ** (-k)
        limit = t['cfg']['FMT_MAX_INTEGER_PADDING'] if 'cfg' in t and 'FMT_MAX_INTEGER_PADDING' in t['cfg'] else 1000
        pad = (-t['scale']) + (t['N'] + 1 if t['N'] > 0 else 0)
        if t['scale'] <= 0 and pad > limit:
            mo = re.fullmatch(r'(\d+)(?:\.(\d+))?(?:e([+-]?\d+))?', body)
            ok = bool(mo) and Fraction(int(mo.group(1) + (mo.group(2) or ''))) * Fraction(10) ** (int(mo.group(3) or 0) - len(mo.group(2) or '')) == abs(exact)
        elif 'e' in body:
            ok = False
        else:
            mo = re.fullmatch(r'(\d+)(?:\.(\d+))?', body)
            ok = bool(mo) and len(mo.group(2) or '') == t['N'] and int(mo.group(1) + (mo.group(2) or '')) == abs(ei)
    else:
        mo = re.fullmatch(r'(\d)(?:\.(\d+))?[eE]([+-]?\d+)', body)
        P = t['N'] + 1
        L = len(str(abs(x)))
        if L > P:
            q = abs(spec.py_round_div_pow10(x, L - P, mode))
            val = Fraction(q) * Fraction(10) ** (L - P - t['scale'])
        else:
            val = abs(exact)
        ok = bool(mo) and len(mo.group(2) or '') == t['N'] and Fraction(int(mo.group(1) + (mo.group(2) or ''))) * Fraction(10) ** (int(mo.group(3)) - t['N']) == val
    stripped = out_flags.replace('*', '').lstrip('+')
    flags_ok = stripped.lstrip('0-').endswith(body.lstrip('0')) or body in out_flags
    return (not ok) or (not flags_ok), '%s | with flags: %s' % (out, out_flags)


def validate(prog, rng, n, mode, rep=None, cfg=None):
    cases = []
    for i in range(n):
        L = rng.randint(1, 10)
        x = rng.choice([10 ** L - 1, 10 ** (L - 1), 5 * 10 ** (L - 1), rng.randint(10 ** (L - 1), 10 ** L - 1)]) * rng.choice([1, -1])
        cases.append((rng.choice(['fixed', 'e', 'E']), x, rng.randint(-4, L + 4), rng.randint(0, L + 3)))
    outs = H.replay_lines(['fmt_prec\t%s\t%s\t%d\tplain' % (k, H.dec_str(x, sc), N) for k, x, sc, N in cases])
    mism = []
    S.DIGIT_BOUND[0] = 30
    for (k, x, sc, N), nat in zip(cases, outs):
        if rep is not None:
            pv = {'kind': 'probe', 'detail': 'native-probe', 'task': {'kind': 'fixed' if k == 'fixed' else 'exp', 'L': len(str(abs(x))), 'scale': sc, 'N': N, 'upper': k == 'E', 'cfg': cfg or {}}, 'model': {'n': abs(x), 'neg': x < 0}}
            bad, out = confirm(pv, mode)
            if bad:
                H.probe_violation(rep, PROP, 'native {:.%d%s} of %d@%d prints %s' % (N, '' if k == 'fixed' else k, x, sc, out), pv['task'], pv['model'], out)
                continue
        m = E.Machine(prog, (), [], E.Stats(), loop_bound=6000)
        try:
            f, r = fmt_call(m, {'fixed': 'Display', 'e': 'LowerExp', 'E': 'UpperExp'}[k], x, sc, N, {})
            mine = S.show(f.out)
        except E.PathEnd as e:
            mine = 'ENGINE:%s' % e
        if mine != nat:
            mism.append({'case': [k, x, sc, N], 'mirsym': mine, 'native': nat})
    return len(cases), mism


def main(tier):
    rep = H.Report(PROP, tier)
    prog = H.get_program()
    rng = H.rng(PROP)
    mode = default_mode(prog)
    cfg = C.config_consts(prog)
    D = 8 if tier == 'quick' else 12
    tasks = []
    for L in range(1, D + 1):
        for scale in range(-4, L + 5):
            for N in range(0, L + 4):
                if tier == 'quick' and (L + scale + N) % 2 and L > 5:
                    continue
                tasks.append({'kind': 'fixed', 'L': L, 'scale': scale, 'N': N, 'mode': mode, 'cfg': cfg})
                if scale in (-2, 0, 1, L - 1, L, L + 2):
                    tasks.append({'kind': 'exp', 'L': L, 'scale': scale, 'N': N, 'mode': mode, 'upper': bool((L + N) % 2)})
    # 19/20-digit coefficients (around i64::MAX / u64::MAX): a thin slice of scales and precisions
    for L in (19, 20):
        for scale in (-2, 0, 1, 5, L - 1, L, L + 2):
            for N in (0, 1, 3, L - 2, L + 1):
                tasks.append({'kind': 'fixed', 'L': L, 'scale': scale, 'N': N, 'mode': mode, 'cfg': cfg})
                if N <= L and scale in (0, 5, L):
                    tasks.append({'kind': 'exp', 'L': L, 'scale': scale, 'N': N, 'mode': mode, 'upper': bool(N % 2)})
    # {:.Ne} at the ends of the i64 scale range (the exponent does not fit i64 there)
    for L in (1, 2, 6):
        for scale in (-2 ** 63, -2 ** 63 + 1, -2 ** 63 + 2, -2 ** 63 + L, -2 ** 63 + L + 1, 2 ** 63 - 1, 2 ** 63 - 2):
            for N in (0, 1, 3):
                tasks.append({'kind': 'exp', 'L': L, 'scale': scale, 'N': N, 'mode': mode, 'upper': bool((L + N) % 2)})
    lim = cfg['FMT_MAX_INTEGER_PADDING']
    for scale in (-(lim - 3), -(lim - 1), -lim, -(lim + 1), -(lim + 40)):
        for N in (0, 1, 2, 5):
            tasks.append({'kind': 'fixed', 'L': 2, 'scale': scale, 'N': N, 'mode': mode, 'cfg': cfg})
    for N in (max(lim - 2, 0), lim, lim + 2):
        tasks.append({'kind': 'fixed', 'L': 2, 'scale': -2, 'N': N, 'mode': mode, 'cfg': cfg})
    for scale in (-3, 0, 4):
        for N in (0, 2):
            tasks.append({'kind': 'fixed', 'L': 1, 'scale': scale, 'N': N, 'mode': mode, 'cfg': cfg, 'zero': True})
            tasks.append({'kind': 'exp', 'L': 1, 'scale': scale, 'N': N, 'mode': mode, 'upper': False, 'zero': True})
    rep.required_labels = {'fixed: padded/rounded numeral', 'fixed: unpadded beyond the padding limit', 'exp: rounds', 'exp: pads'}
    rep.bounds = {'digits_L': '1..%d (symbolic digits and sign)' % D, 'scale': '-4..L+4 and the region around the padding limit %d' % lim, 'N': '0..L+3 and around the padding limit',
                  'default mode read from the dump': mode, 'flags': 'width/fill/+/0 are unconstrained symbolic Formatter fields'}
    rep.assumptions = ['Formatter::pad_integral adds only sign/padding around the buffer it is given (std); the digits handed to it are what is checked',
                       'oracle is the textbook rounding (C06 shows with_scale_round / with_precision_round equal it)']
    rep.outside = ['more than D digits', 'std pad_integral itself']
    sys.stderr.write('[C16] %d tasks\n' % len(tasks))
    rep.validated, rep.validation_mismatches = validate(prog, rng, 300 if tier == 'quick' else 3000, mode, rep, cfg)
    results = H.run_parallel(tasks, worker, progress=500)
    rep.add(results)
    for r in results:
        for v in r['violations']:
            ok, out = confirm(v, mode)
            v['native'] = out
            if ok:
                v['replay_file'] = H.write_replay_file(PROP, v)
                rep.confirmed.append(v)
            else:
                rep.unconfirmed.append(v)
    return rep.finish()


def replay(path):
    import json
    v = json.load(open(path))
    ok, out = confirm(v, default_mode(H.get_program()))
    print('replay %s -> native %s ; violation reproduced: %s' % (path, out, ok))
    return 1 if ok else 0
