"""driver: ./check <ID> [--tier quick|thorough] [--replay file]"""
import argparse
import importlib
import os
import sys
import traceback

sys.set_int_max_str_digits(0)


def main():
    ap = argparse.ArgumentParser()
    ap.add_argument('prop')
    ap.add_argument('--tier', default=os.environ.get('VERIF_TIER', 'quick'))
    ap.add_argument('--replay', default=None)
    a = ap.parse_args()
    tier = a.tier if a.tier in ('quick', 'thorough') else 'quick'
    mod = importlib.import_module('props.' + a.prop.lower())
    try:
        if a.replay:
            rc = mod.replay(a.replay)
        else:
            rc = mod.main(tier)
    except Exception:
        traceback.print_exc()
        print('%s: INCONCLUSIVE (engine error)' % a.prop)
        rc = 2
    sys.stdout.flush()
    sys.exit(rc)


if __name__ == '__main__':
    main()
