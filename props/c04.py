"""C04 — every textual rendering parses back to the same decimal."""
import sys
import z3

from mirsym import harness as H
from mirsym import engine as E
from mirsym import summaries as S
from mirsym.engine import Agg, Ref, is_sym
from . import common as C

PROP = 'C04'
FNS = ['display', 'display_ref', 'lowerexp', 'lowerexp_ref', 'upperexp', 'upperexp_ref', 'to_scientific_notation', 'to_engineering_notation', 'to_plain_string']
SCALE_LIMIT = 10 ** 15     # the property quantifies over scales in [-10^15, 10^15]
MAX_RENDER = 21    # characters of a rendered i128 exponent in the i64-scale range, sign included


def render(m, fn, x, scale):
    bd = C.dec(x, scale)
    if fn in ('display', 'lowerexp', 'upperexp'):
        tr = {'display': 'Display', 'lowerexp': 'LowerExp', 'upperexp': 'UpperExp'}[fn]
        f = S.FmtV()
        r = m.call('<BigDecimal as std::fmt::%s>::fmt' % tr, [Ref([bd], 0), Ref([f], 0)], ['&BigDecimal', '&mut Formatter'], 'Result<(), Error>')
        return f.out, r.variant == 'Ok'
    if fn.endswith('_ref'):
        tr = {'display_ref': 'Display', 'lowerexp_ref': 'LowerExp', 'upperexp_ref': 'UpperExp'}[fn]
        f = S.FmtV()
        r = m.call("<BigDecimalRef<'_> as std::fmt::%s>::fmt" % tr, [Ref([C.decref(m, x, scale)], 0), Ref([f], 0)], ["&BigDecimalRef<'_>", '&mut Formatter'], 'Result<(), Error>')
        return f.out, r.variant == 'Ok'
    r = m.call('BigDecimal::' + fn, [Ref([bd], 0)], ['&BigDecimal'], 'String')
    return r.items, True


def run_roundtrip(fn, L, slo, shi, cfg):
    n, scale = z3.Ints('n scale')
    neg = z3.Bool('neg')

    def run(m):
        m.witness = {'n': n, 'scale': scale, 'neg': neg}
        S.DIGIT_BOUND[0] = max(L, 1) + 1
        if L == 0:
            m.assume(n == 0)
        else:
            m.assume(z3.And(n >= 10 ** (L - 1), n < 10 ** L))
        m.assume(z3.And(scale >= slo, scale <= shi))
        x = z3.If(neg, -n, n)
        out, ok = render(m, fn, x, scale)
        text = S.show(out)
        if not ok:
            return [('formatting succeeds', True)]
        has_exp = any(isinstance(c, S.IntRender) for c in out) or any(c in (101, 69) for c in out if isinstance(c, int))
        m.labels.add('%s:%s' % (fn.split('_')[0], 'exponent form' if has_exp else 'plain form'))
        obl = []
        p = m.call('<BigDecimal as FromStr>::from_str', [S.str_slice(S.StrV(list(out)))], ['&str'], 'Result<BigDecimal, ParseBigDecimalError>')
        if p.variant != 'Ok':
            return [('output parses back: ' + text, True)]
        pi, ps = p.fields[0].fields
        if L == 0:
            same_value = pi == 0
        else:
            off = m.concretize(ps - scale)
            same_value = (pi == x * 10 ** off) if off >= 0 else (pi * 10 ** (-off) == x)
        obl.append(('re-parsed value is numerically equal: ' + text, z3.Not(same_value)))
        if fn != 'to_engineering_notation':
            identical = z3.And(pi == x, ps == scale)
            if fn.startswith('display'):
                allowed = z3.And(scale < 0, -scale <= max(cfg['EXPONENTIAL_FORMAT_TRAILING_ZERO_THRESHOLD'], 20))      # documented integer zero padding
            elif fn == 'to_plain_string':
                allowed = scale < 0
            else:
                allowed = z3.BoolVal(False)
            # zero is rendered canonically by the notation writers ("0e0")
            if fn in ('to_scientific_notation', 'to_engineering_notation'):
                allowed = z3.Or(allowed, n == 0)
            obl.append(('identical digits and scale: ' + text, z3.And(z3.Not(identical), z3.Not(allowed))))
        if fn.startswith('display'):
            length = sum(MAX_RENDER if isinstance(c, S.IntRender) else 1 for c in out)
            bound = max(L, 1) + cfg['EXPONENTIAL_FORMAT_LEADING_ZERO_THRESHOLD'] + max(cfg['EXPONENTIAL_FORMAT_TRAILING_ZERO_THRESHOLD'], 20) + MAX_RENDER + 6
            obl.append(('Display length within a constant of the digit count (%d <= %d)' % (length, bound), length > bound))
        return obl
    return run


def worker(t):
    prog = H.get_program()
    S.BITS_MODE[:] = ['ladder', 192]        # exact bit-length facts (the pinned code of this property never asks for bits() of a symbolic integer; rewrites might)
    return H.explore_task(prog, run_roundtrip(t['fn'], t['L'], t['slo'], t['shi'], t['cfg']), task=t, loop_bound=4000, timeout_ms=60000, deadline_s=900)


def confirm(v):
    t, mdl = v['task'], v['model']
    if not mdl:
        return False, 'no model'
    x = -mdl['n'] if mdl.get('neg') else mdl['n']
    sc = mdl['scale']
    out = H.replay_lines(['fmt_roundtrip\t%s\t%s' % (t['fn'], H.dec_str(x, sc))])[0]
    # native answer: "<text>\x1f<parsed int:scale | ERR>"
    if out.startswith('PANIC'):
        return True, out
    if v.get('kind') == 'panic':
        # an arithmetic-overflow event wraps silently in the release profile: the dev profile (overflow checks on) is the
        # build in which it is a panic, i.e. no text at all
        dbg = H.replay_lines(['fmt_roundtrip\t%s\t%s' % (t['fn'], H.dec_str(x, sc))], 'debug')[0]
        if dbg.startswith('PANIC'):
            return True, 'debug profile: %s ; release profile: %s' % (dbg[:80], out[:80])
    text, parsed = out.split('\x1f')
    if parsed == 'ERR':
        return True, out
    pi, ps = H.parse_dec(parsed)
    if abs(ps - sc) > 100000:
        # never materialise 10^(scale difference) for extreme scales: values this far apart are equal only when both are zero
        if pi != 0 or x != 0:
            return True, out
    else:
        M = max(ps, sc)
        if pi * 10 ** (M - ps) != x * 10 ** (M - sc):
            return True, out
    if 'identical' in v['detail']:
        return not (pi == x and ps == sc), out
    if 'length' in v['detail']:
        return True, out
    return False, out


def validate(prog, rng, n, rep=None):
    cases = []
    for i in range(n):
        fn = rng.choice(FNS)
        L = rng.randint(1, 12)
        x = rng.choice([0, 10 ** (L - 1), 10 ** L - 1, rng.randint(10 ** (L - 1), 10 ** L - 1)]) * rng.choice([1, -1])
        sc = rng.choice([0, 1, L, L + 4, L + 5, L + 6, -1, -14, -15, -16, -20, -21, rng.randint(-40, 40)]) if fn != 'to_plain_string' else rng.randint(-20, 30)
        cases.append((fn, x, sc))
    outs = H.replay_lines(['fmt_roundtrip\t%s\t%s' % (fn, H.dec_str(x, sc)) for fn, x, sc in cases])
    mism = []
    S.DIGIT_BOUND[0] = 40
    for (fn, x, sc), nat in zip(cases, outs):
        if rep is not None and '\x1f' in nat:
            text, parsed = nat.split('\x1f')
            bad = parsed == 'ERR'
            if not bad:
                pi, ps = H.parse_dec(parsed)
                M = max(ps, sc)
                bad = pi * 10 ** (M - ps) != x * 10 ** (M - sc)
            if bad:
                H.probe_violation(rep, PROP, 'native %s of %d@%d prints %r which parses back as %s' % (fn, x, sc, text, parsed), {'fn': fn, 'L': len(str(abs(x))), 'slo': sc, 'shi': sc, 'cfg': {}}, {'n': abs(x), 'scale': sc, 'neg': x < 0}, nat)
                continue
        m = E.Machine(prog, (), [], E.Stats(), loop_bound=4000)
        try:
            out, ok = render(m, fn, x, sc)
            mine = S.show(out)
        except E.PathEnd as e:
            mine = 'ENGINE:%s' % e
        if mine != nat.split('\x1f')[0]:
            mism.append({'case': [fn, x, sc], 'mirsym': mine, 'native': nat})
    return len(cases), mism


def main(tier):
    rep = H.Report(PROP, tier)
    prog = H.get_program()
    rng = H.rng(PROP)
    cfg = C.config_consts(prog)
    D = 10 if tier == 'quick' else 32
    tasks = []
    EXTREME_L = (0, 1, 2, 6, D)
    # every digit length up to D, plus 19/20/21 digits (around u64::MAX / i64::MAX, where a native-integer fast path would sit)
    for fn in FNS:
        for L in list(range(0, D + 1)) + [l for l in (19, 20, 21) if l > D]:
            if fn == 'to_plain_string':
                tasks.append({'fn': fn, 'L': L, 'slo': -40, 'shi': 60, 'cfg': cfg})
            else:
                # the whole i64 range of scales, split in three bands only to shard the work
                for (lo, hi) in ((-SCALE_LIMIT, -41), (-40, 60), (61, SCALE_LIMIT)):
                    tasks.append({'fn': fn, 'L': L, 'slo': lo, 'shi': hi, 'cfg': cfg})
                # beyond the property's quantifier (|scale| <= 10^15): the remaining i64 scales for the renderings whose
                # pinned code is right there too (exponent arithmetic in i128); engineering notation is NOT (DESIGN section 11)
                if fn not in ('to_engineering_notation',) and L in EXTREME_L:
                    tasks.append({'fn': fn, 'L': L, 'slo': -2 ** 63 + 1, 'shi': -SCALE_LIMIT - 1, 'cfg': cfg, 'extreme': True})
                    tasks.append({'fn': fn, 'L': L, 'slo': SCALE_LIMIT + 1, 'shi': 2 ** 63 - 1, 'cfg': cfg, 'extreme': True})
                    if L >= 1:
                        # scale exactly i64::MIN for non-zero values (zero at i64::MIN prints as 0: observation in DESIGN section 11)
                        tasks.append({'fn': fn, 'L': L, 'slo': -2 ** 63, 'shi': -2 ** 63, 'cfg': cfg, 'extreme': True})
    rep.required_labels = {'display:plain form', 'display:exponent form', 'lowerexp:exponent form', 'to:plain form'}
    rep.bounds = {'digits_L': '0 (zero) and 1..%d, symbolic digits and sign' % D, 'scale': 'every scale in [-10^15, 10^15] (symbolic; the code thresholds fork it); to_plain_string: -40..60; additionally (beyond the property quantifier) every remaining i64 scale (i64::MIN for non-zero values only) for all renderings but engineering / plain at digit lengths %s' % (EXTREME_L,),
                  'renderings': FNS, 'config constants read from the dump': cfg}
    rep.assumptions = ['fmt::Formatter::pad_integral with default options emits sign + buffer (std); integer Display/{:+} rendering is std',
                       'i128::from_str / BigInt::from_str_radix acceptance rules (std / num-bigint 0.4) as summarised in DESIGN 2.4']
    rep.outside = ['more than D digits', 'to_plain_string beyond |scale| 60 (materialises zeros)', '|scale| > 10^15 for to_engineering_notation (observation: d@(i64::MAX) prints d00e-9223372036854775809, which the parser rejects with an exponent overflow; outside the property scope) and scale == i64::MIN (observation: Display prints the zero 0@i64::MIN as 0, dropping the scale; the value is preserved)']
    sys.stderr.write('[C04] %d tasks\n' % len(tasks))
    rep.validated, rep.validation_mismatches = validate(prog, rng, 300 if tier == 'quick' else 3000, rep)
    results = H.run_parallel(tasks, worker, progress=100)
    rep.add(results)
    for r in results:
        for v in r['violations']:
            ok, out = confirm(v)
            v['native'] = out
            if ok:
                v['replay_file'] = H.write_replay_file(PROP, v)
                rep.confirmed.append(v)
            else:
                rep.unconfirmed.append(v)
    return rep.finish()


def replay(path):
    import json
    v = json.load(open(path))
    ok, out = confirm(v)
    print('replay %s -> native %s ; violation reproduced: %s' % (path, out, ok))
    return 1 if ok else 0
