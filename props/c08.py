"""C08 — division is correctly rounded and refuses a zero divisor in every form.

(A) impl_division is decided by CUT-POINT INDUCTION on its digit loop (base: entry -> first arrival at the loop head or
    return; step: arbitrary invariant state at the head -> next arrival or return), for a concrete denominator and an
    unbounded-precision-loop (max_precision read from the dump), numerators x with |x| < 10^K.
(B) sign normalisation: the recursive calls are made with (|x|, |d|) and the result is negated exactly when signs differ.
(C) every Div / DivAssign overload: zero divisor panics; +-1 / +-2 shortcuts are exact; otherwise impl_division is reached
    with arguments denoting the same quotient as the converted-decimal form, at the configured precision, and its result is
    returned unchanged."""
import re
import struct
import sys
from fractions import Fraction

import z3

from mirsym import harness as H
from mirsym import engine as E
from mirsym import summaries as S
from mirsym import cutpoint as CP
from mirsym.engine import Agg, Ref, mk_enum, is_sym
from . import common as C
from . import contracts as K

PROP = 'C08'
P10 = z3.Function('pow10', z3.IntSort(), z3.IntSort())


def default_precision(prog):
    m = E.Machine(prog, (), [], E.Stats())
    ctx = m.call('<Context as Default>::default', [], [], 'Context')
    return ctx.fields[0]


# ------------------------------------------------------------------------------------------ (A) induction

def post_cond(ri, rs, Xs, sc, den, P, q_before=None):
    """result (ri @ rs) vs the scaled numerator Xs = x*10^(sc - s_in + 1) (i.e. true quotient * den * 10 at scale sc)"""
    exact = ri * den * 10 == Xs
    err2 = 2 * (ri * den * 10 - Xs)
    approx = z3.And(err2 > -10 * den, err2 <= 10 * den, ri >= 10 ** (P - 1))
    return z3.And(rs == sc, z3.Or(exact, approx))


def run_base(den, Kd, P, snapshots, Lmin=0):
    x, s0 = z3.Ints('x s0')

    def run(m):
        m.witness = {'x': x, 's0': s0}
        body = m.prog.by_name['impl_division']
        head = CP.find_loop_head(body, r'div_rem')
        m.cut = ('impl_division', head)
        K.DIGITS_MAX[0] = Kd + 3
        m.assume(z3.And(s0 >= -C.SCALE_BOUND, s0 <= C.SCALE_BOUND, x > 0, x < 10 ** Kd))
        if Lmin:
            m.assume(x >= 10 ** (Lmin - 1))          # only the long numerators of this task
        try:
            r = m.call('impl_division', [x, Ref([den], 0), s0, P], ['num_bigint::BigInt', '&num_bigint::BigInt', 'i64', 'u64'], 'BigDecimal')
        except E.CutReached as c:
            fr = c.frame
            dbg = body.debug
            nm = {k: fr.locals.get(v) for k, v in dbg.items()}
            j = m.concretize(nm['scale'] - s0)
            prec = m.concretize(nm['precision'])
            q, rem = nm['quotient'], nm['remainder']
            inv = z3.And(x * 10 ** (j + 1) == q * den * 10 + rem, rem >= 0, rem < 10 * den, rem % 10 == 0,
                         q >= 10 ** (prec - 1), q < 10 ** prec, nm['max_precision'] == P)
            snap = tuple(sorted((k, v) for k, v in fr.locals.items() if k not in dbg.values() and isinstance(v, bool)))
            snapshots.add(snap)
            m.labels.add('base: reaches the digit loop')
            return [('invariant established at the first arrival at the loop head', z3.Not(inv))]
        ri, rs = r.fields
        j = m.concretize(rs - s0)
        m.labels.add('base: returns before the loop')
        return [('early return is exact or correctly rounded', z3.Not(post_cond(ri, rs, x * 10 ** (j + 1), s0 + j, den, P)))]
    return run


def run_step(den, P, snap, pf=None):
    """pf: None = arbitrary precision counter (ghost pow10); an int = the loop head is reached with exactly pf digits
    in the quotient (pf > P: the over-long first quotient, where any extra rounding of the result needs a concrete width)"""
    Xs, q, rem, prec, sc = z3.Ints('X quotient remainder precision scale')

    def run(m):
        if pf is not None:
            K.DIGITS_MAX[0] = pf + 3
            m.assume(z3.And(prec == pf, P10(prec - 1) == 10 ** (pf - 1), P10(prec) == 10 ** pf))
        m.witness = {'X': Xs, 'quotient': q, 'remainder': rem, 'precision': prec, 'scale': sc}
        body = m.prog.by_name['impl_division']
        head = CP.find_loop_head(body, r'div_rem')
        dbg = body.debug
        m.cut = ('impl_division', head)
        pw = P10(prec - 1)
        # invariant (arbitrary state) + true facts about powers of ten (axiom instances for the ghost pow10)
        m.assume(z3.And(prec >= 1, sc >= -C.SCALE_BOUND - 10 ** 6, sc <= C.SCALE_BOUND + 10 ** 6))
        m.assume(z3.And(Xs == q * den * 10 + rem, rem >= 0, rem < 10 * den, rem % 10 == 0, q >= pw, q < 10 * pw, pw >= 1))
        m.assume(z3.And(P10(prec) == 10 * pw, z3.Implies(prec >= P, pw >= 10 ** (P - 1)), prec < 2 ** 62))
        init = dict(snap)
        init[dbg['quotient']] = q
        init[dbg['remainder']] = rem
        init[dbg['precision']] = prec
        init[dbg['scale']] = sc
        init[dbg['max_precision']] = P
        init[dbg['den']] = Ref([den], 0)
        try:
            r = m.call_body(body, [], {}, start_bb=head, init_locals=init)
        except E.CutReached as c:
            nm = {k: c.frame.locals.get(v) for k, v in dbg.items()}
            q2, rem2, p2 = nm['quotient'], nm['remainder'], nm['precision']
            inv = z3.And(10 * Xs == q2 * den * 10 + rem2, rem2 >= 0, rem2 < 10 * den, rem2 % 10 == 0, nm['scale'] == sc + 1, p2 == prec + 1,
                         q2 >= P10(p2 - 1), q2 < 10 * P10(p2 - 1), nm['max_precision'] == P)
            m.labels.add('step: invariant preserved')
            return [('invariant preserved by one digit', z3.Not(inv))]
        ri, rs = r.fields
        m.labels.add('step: exit' if pf is None else 'step-over: exit')
        if pf is not None:
            # concrete width: judge the result on the property itself (exact, or >= P digits within half a unit of ITS last
            # place), whatever scale the code chose, so that a counterexample is a real failing division
            k = m.concretize(sc - rs)
            if k < 0:
                return [('result keeps at least the digits of the exact prefix', True)]
            v10 = ri * 10 ** k
            err2 = 2 * (v10 * den * 10 - Xs)
            half = 10 * den * 10 ** k
            ok = z3.Or(v10 * den * 10 == Xs, z3.And(err2 >= -half, err2 <= half, ri >= 10 ** (P - 1)))
            return [('over-long quotient: exact, or >= P digits within half a unit of the last place', z3.Not(ok))]
        return [('exit: exact, or >= P digits within half a unit (ties away from zero)', z3.Not(post_cond(ri, rs, Xs, sc, den, P)))]
    return run


def run_signs(den, P):
    """the sign normalisation of impl_division: nested calls see magnitudes, result negated iff signs differ"""
    x, s0 = z3.Ints('x s0')

    def run(m):
        m.witness = {'x': x, 's0': s0}
        m.assume(z3.And(s0 >= -C.SCALE_BOUND, s0 <= C.SCALE_BOUND, x != 0))
        R, RS = m.fresh('R'), m.fresh('RS')
        state = {'depth': 0, 'calls': []}
        body = m.prog.by_name['impl_division']

        def contract(mm, mo, args, tys, dty):
            if state['depth'] == 0:
                state['depth'] = 1
                try:
                    return mm.call_body(body, args, {})
                finally:
                    state['depth'] = 0
            state['calls'].append((args[0], S.deref(args[1]), args[2], args[3]))
            return C.dec(R, RS)
        m.overrides = [(re.compile(r'^(?:[a-z_]+::)*impl_division$'), contract)] + list(m.overrides)
        m.cut = None
        if m.branch_bool(z3.And(x > 0, z3.BoolVal(den > 0))):
            m.labels.add('signs: positive/positive goes straight to the loop (covered by the induction)')
            return []
        r = m.call('impl_division', [x, Ref([den], 0), s0, P], ['num_bigint::BigInt', '&num_bigint::BigInt', 'i64', 'u64'], 'BigDecimal')
        ri, rs = r.fields
        if len(state['calls']) != 1:
            return [('exactly one recursive call for a negative operand', True)]
        n2, d2, sc2, p2 = state['calls'][0]
        neg = z3.Xor(x < 0, z3.BoolVal(den < 0))
        m.labels.add('signs: recursion')
        return [('recursive call gets the magnitudes, same scale and precision', z3.Not(z3.And(n2 == z3.If(x < 0, -x, x), d2 == abs(den), sc2 == s0, p2 == P))),
                ('result negated exactly when the signs differ', z3.Not(z3.And(rs == RS, ri == z3.If(neg, -R, R))))]
    return run


# ------------------------------------------------------------------------------------------ (C) overloads

INT_TYPES = C.PRIMS_INT
FLOAT_TYPES = ['f32', 'f64']
ALL_TYPES = C.DEC_FORMS + INT_TYPES + ['&' + t for t in INT_TYPES] + FLOAT_TYPES + ['&' + t for t in FLOAT_TYPES]


def div_overloads(prog):
    out = []
    for lt, rt, path, d in C.discover_overloads(prog, 'std::ops::Div', 'div', ALL_TYPES, ALL_TYPES):
        if C.kind_of(lt) != 'dec' and C.kind_of(rt) != 'dec':
            continue
        out.append({'op': '/', 'trait': 'Div', 'lhs': lt, 'rhs': rt, 'path': path, 'assign': False})
    for lt, rt, path, d in C.discover_overloads(prog, 'std::ops::DivAssign', 'div_assign', ['BigDecimal'], ALL_TYPES, assign=True):
        out.append({'op': '/', 'trait': 'DivAssign', 'lhs': '&mut BigDecimal', 'rhs': rt, 'path': path, 'assign': True})
    return out


def f_bits(ty, v):
    return struct.unpack('<I', struct.pack('<f', v))[0] if ty == 'f32' else struct.unpack('<Q', struct.pack('<d', v))[0]


def float_val(ty, v):
    """the exact python float stored in a value of type ty"""
    return struct.unpack('<f', struct.pack('<f', v))[0] if ty == 'f32' else v


def make_side(m, ty, kind, val, sc):
    """operand of Rust type ty; val: z3 term / int / float"""
    k = C.kind_of(ty)
    if k.startswith('float:'):
        fv = float_val(k[6:], val)
        return Ref([fv], 0) if ty.startswith('&') else fv
    return C.make_operand(m, ty, val, sc)


def run_overload(ov, mode, dval, ga, gb, P):
    """mode: 'zero' (divisor zero), 'shortcut' (divisor +-1, +-2), 'route' (concrete other divisor / numerator)"""
    x = z3.Int('x')
    s0 = 0      # concrete scales: the is_one()/== shortcuts compare scales against the literal one

    def run(m):
        m.witness = {'x': x, 's0': s0}
        lk, rk = C.kind_of(ov['lhs']), C.kind_of(ov['rhs'])
        R, RS = m.fresh('R'), m.fresh('RS')
        calls = []

        def contract(mm, mo, args, tys, dty):
            calls.append((args[0], S.deref(args[1]), args[2], args[3]))
            return C.dec(R, RS)

        def inverse_contract(mm, mo, args, tys, dty):
            calls.append('inverse')
            return C.dec(R, RS)
        m.overrides = [(re.compile(r'^(?:[a-z_]+::)*impl_division$'), contract)] + list(m.overrides)
        if mode != 'zero':
            # inverse() is C12 (not applicable); for a ZERO divisor its body returns early and is executed for real
            m.overrides = [(re.compile(r'^BigDecimal::inverse$'), inverse_contract)] + m.overrides
        # which side is the symbolic decimal, which the concrete value
        if lk == 'dec' and (rk != 'dec' or mode in ('zero', 'shortcut', 'route')):
            # symbolic numerator decimal, concrete divisor dval
            num_sym = True
        else:
            num_sym = False
        if rk != 'dec':
            sa, sb = s0 + ga, 0
        elif lk != 'dec':
            sa, sb = 0, s0 + gb
        else:
            sa, sb = s0 + ga, s0 + gb
        if lk == 'dec':
            a = C.make_operand(m, ov['lhs'], x, sa)
            b = make_side(m, ov['rhs'], rk, dval, sb)
            xv, yv = x, (float_val(rk[6:], dval) if rk.startswith('float:') else dval)
        else:
            # reversed form: concrete primitive numerator dval, symbolic decimal divisor x
            a = make_side(m, ov['lhs'], lk, dval, sa)
            b = C.make_operand(m, ov['rhs'], x, sb)
            xv, yv = (float_val(lk[6:], dval) if lk.startswith('float:') else dval), x
            if mode == 'zero':
                m.assume(x == 0)
            else:
                m.assume(x != 0)
        try:
            r = m.call(ov['path'], [a, b], [ov['lhs'], ov['rhs']], '()' if ov['assign'] else 'BigDecimal')
        except E.Panic as p:
            if mode == 'zero':
                m.labels.add('zero divisor panics')
                return []
            raise
        if ov['assign']:
            r = a.get()
        ri, rs = r.fields
        if mode == 'zero':
            if rk.startswith('float:') or lk.startswith('float:') and False:
                m.labels.add('float zero divisor returns a number (outside the property: "zero integer or zero decimal divisor")')
                return []
            return [('a zero divisor must panic', True)]
        # exact rational value of the expected quotient: (xv*10^-sa) / (yv*10^-sb)
        yfrac = Fraction(yv) if not is_sym(yv) else None
        if lk == 'dec':
            # x symbolic numerator, divisor concrete (int or float): quotient = x * 10^-(sa) / yv
            if not calls:
                # no division routine reached: result must be the exact quotient
                d = m.concretize(rs - sa) if rk != 'dec' else m.concretize(rs - (sa - sb))
                # ri*10^-rs == x*10^-sa / y   <=>  ri * yn * 10^? == x * yd * 10^?
                base = sa if rk != 'dec' else sa - sb
                M = max(0, d)
                lhs = ri * yfrac.numerator * 10 ** (M - d)
                rhs = x * yfrac.denominator * 10 ** M
                m.labels.add('shortcut: exact')
                return [('shortcut result is the exact quotient', lhs != rhs)]
            if isinstance(calls[0], str):
                return [('inverse() must only be used for numerator one', True)]
            n2, d2, sc2, p2 = calls[0]
            # n2/d2 * 10^-sc2  ==  x*10^-sa / (y*10^-sb)
            off = m.concretize(sc2 - (sa - sb))
            M = max(0, off)
            # cross-multiplication with concrete d2 (the divisor is concrete on this path)
            d2c = d2 if not is_sym(d2) else m.concretize(d2)
            lhs = n2 * yfrac.numerator * 10 ** (M - off)
            rhs = x * yfrac.denominator * d2c * 10 ** M
            m.labels.add('routes to impl_division')
            return [('impl_division receives an equivalent quotient', lhs != rhs), ('at the configured precision', p2 != P),
                    ('its result is returned unchanged', z3.Or(ri != R, rs != RS))]
        # reversed: concrete numerator yv=dval... here xv is concrete, divisor x symbolic
        if calls and isinstance(calls[0], str):
            if Fraction(xv) == 1:
                m.labels.add('numerator one uses inverse()')
                return [('inverse result returned unchanged', z3.Or(ri != R, rs != RS))]
            return [('inverse() must only be used for numerator one', True)]
        if not calls:
            # shortcuts in Div<BigDecimal>: zero numerator, divisor one, equal integers
            xf = Fraction(xv)
            d = m.concretize(rs + sb)
            M = max(0, d)
            # ri*10^-rs * (x*10^-sb) == xf    <=>  ri * x * xf.den * 10^(M-d) == xf.num * 10^M   (nonlinear: ri, x) -> concrete cases only
            if not is_sym(ri):
                return [('shortcut result times divisor equals the numerator', ri * x * xf.denominator * 10 ** (M - d) != xf.numerator * 10 ** M)]
            m.labels.add('reversed shortcut with symbolic result')
            return [('shortcut result times divisor equals the numerator', ri * x * xf.denominator * 10 ** (M - d) != xf.numerator * 10 ** M)]
        n2, d2, sc2, p2 = calls[0]
        xf = Fraction(xv)
        off = m.concretize(sc2 + sb)           # expected scale: 0 - sb
        M = max(0, off)
        n2c = n2 if not is_sym(n2) else m.concretize(n2)
        # n2/d2*10^-sc2 == xf / (x*10^-sb)  <=>  n2 * x * xf.den * 10^(M-off) == xf.num * d2 * 10^M
        lhs = n2c * x * xf.denominator * 10 ** (M - off)
        rhs = xf.numerator * d2 * 10 ** M
        m.labels.add('routes to impl_division (reversed)')
        return [('impl_division receives an equivalent quotient', lhs != rhs), ('at the configured precision', p2 != P),
                ('its result is returned unchanged', z3.Or(ri != R, rs != RS))]
    return run


def worker(t):
    prog = H.get_program()
    S.BITS_MODE[:] = ['ladder', 192]        # exact bit-length facts (the pinned code of this property never asks for bits() of a symbolic integer; rewrites might)
    saved = list(E.DEFAULT_OVERRIDES)
    try:
        E.DEFAULT_OVERRIDES[:] = K.DIGIT_CONTRACTS + K.ROUNDING_TERM_CONTRACTS + K.EQ_CONTRACTS
        k = t['kind']
        if k == 'induction':
            den, Kd, P = t['den'], t['K'], t['P']
            snaps = set()
            out = [H.explore_task(prog, run_base(den, Kd, P, snaps, t.get('Lmin', 0)), task=dict(t, phase='base'), loop_bound=Kd + 400, timeout_ms=60000, deadline_s=600)]
            if not snaps:
                snaps = set()
            for snap in sorted(snaps):
                out.append(H.explore_task(prog, run_step(den, P, snap), task=dict(t, phase='step'), loop_bound=400, timeout_ms=60000, deadline_s=600))
                for pf in t.get('over', []):
                    out.append(H.explore_task(prog, run_step(den, P, snap, pf), task=dict(t, phase='step-over', pf=pf), loop_bound=400, timeout_ms=60000, deadline_s=600))
            return out
        if k == 'signs':
            return H.explore_task(prog, run_signs(t['den'], t['P']), task=t, loop_bound=400, timeout_ms=60000, deadline_s=600)
        return H.explore_task(prog, run_overload(t['ov'], t['mode'], t['dval'], t['ga'], t['gb'], t['P']), task=t, loop_bound=600, timeout_ms=60000, deadline_s=600)
    finally:
        E.DEFAULT_OVERRIDES[:] = saved


# ------------------------------------------------------------------------------------------ replay

def py_div_check(x, sa, y, sb, ri, rs, P):
    """is ri@rs the exact quotient, or >= P digits within half an ulp (ties away from zero) of (x@sa)/(y@sb)?"""
    q = Fraction(x, y) * Fraction(10) ** (sb - sa)
    r = Fraction(ri) * Fraction(10) ** (-rs)
    if r == q:
        return True
    if len(str(abs(ri))) < P:
        return False
    ulp = Fraction(10) ** (-rs)
    err = abs(r) - abs(q)
    if (r < 0) != (q < 0) and r != 0:
        return False
    return -ulp / 2 < err <= ulp / 2


def operand_str(ty, val, sc):
    k = C.kind_of(ty)
    if k == 'dec':
        return H.dec_str(val, sc)
    if k.startswith('float:'):
        return '0x%x' % f_bits(k[6:], val)
    return str(val)


def confirm(v, P):
    t, mdl = v['task'], v['model']
    if not mdl:
        return False, 'no model'
    k = t['kind']
    if k in ('induction', 'signs'):
        den = t['den']
        if t.get('phase') in ('step', 'step-over'):
            # a state at the loop head: replay the division it belongs to: X/10 = numerator at scale `scale`
            X, sc = mdl['X'], mdl['scale']
            if X % 10:
                return False, 'step model is not a reachable state (X not a multiple of ten)'
            x, s0 = X // 10, 0        # the scale only shifts the result; the model's value is arbitrary
        else:
            x, s0 = mdl['x'], mdl['s0']
            if abs(s0) > 1000:
                s0 = 0          # the base scale only shifts the result; never materialise 10^(2^60) in the exact oracle
        line = 'binop\tDiv\tBigDecimal\tBigDecimal\t%s\t%s' % (H.dec_str(x, s0), H.dec_str(den, 0))
        out = H.replay_lines([line])[0]
        if out.startswith('PANIC'):
            return True, out
        ri, rs = H.parse_dec(out)
        return not py_div_check(x, s0, den, 0, ri, rs, P), out
    ov = t['ov']
    lk, rk = C.kind_of(ov['lhs']), C.kind_of(ov['rhs'])

    def setup(x, s0):
        sa = s0 + t['ga'] if lk == 'dec' else 0
        sb = s0 + t['gb'] if rk == 'dec' else 0
        if rk != 'dec':
            sa, sb = s0 + t['ga'], 0
        elif lk != 'dec':
            sa, sb = 0, s0 + t['gb']
        if lk == 'dec':
            l, r = operand_str(ov['lhs'], x, sa), operand_str(ov['rhs'], t['dval'], sb)
            num, den = Fraction(x) * Fraction(10) ** (-sa), Fraction(float_val(rk[6:], t['dval']) if rk.startswith('float:') else t['dval']) * Fraction(10) ** (-sb if rk == 'dec' else 0)
        else:
            l, r = operand_str(ov['lhs'], t['dval'], sa), operand_str(ov['rhs'], x, sb)
            num, den = Fraction(float_val(lk[6:], t['dval']) if lk.startswith('float:') else t['dval']), Fraction(x) * Fraction(10) ** (-sb)
        return '\t'.join(['binop', ov['trait'], C.norm_ty(ov['lhs']), C.norm_ty(ov['rhs']), l, r]), num, den

    def judge(out, num, den):
        if t['mode'] == 'zero':
            return not out.startswith('PANIC')
        if out.startswith('PANIC') or out.startswith('UNKNOWN'):
            return out.startswith('PANIC')
        ri, rs = H.parse_dec(out)
        if den == 0:
            return True
        q = num / den
        rr = Fraction(ri) * Fraction(10) ** (-rs)
        if rr == q:
            return False
        if len(str(abs(ri))) < P:
            return True
        ulp = Fraction(10) ** (-rs)
        return not (abs(rr - q) <= ulp / 2)

    line, num, den = setup(mdl['x'], mdl['s0'])
    out = H.replay_lines([line])[0]
    bad = judge(out, num, den)
    if bad or not v.get('detail', '').startswith('inverse()'):
        return bad, out
    # Routing violation (the quotient was obtained through inverse(), which is only licensed for numerator one): the model's
    # divisor need not be one on which the reciprocal routine misrounds.  Search natively over small divisors of the same
    # overload and operand shape; the reported witness is the native one.
    xs = [d for d in range(2, 1500)]
    cases = [setup(xx, mdl['s0']) for xx in xs]
    outs = H.replay_lines([cc[0] for cc in cases])
    for xx, (ln, nn, dd), oo in zip(xs, cases, outs):
        if judge(oo, nn, dd):
            mdl['x_from_solver'] = mdl['x']
            mdl['x'] = xx
            return True, oo + ' [divisor %d found natively among 2..1499 for this overload]' % xx
    return False, out


def validate(prog, rng, n, P, rep=None):
    cases = []
    for i in range(n):
        x = rng.choice([1, 2, 3, 7, 10, 22, 355, 10 ** 20 + 1, rng.randint(1, 10 ** 30)]) * rng.choice([1, -1])
        d = rng.choice([3, 7, 8, 9, 11, 13, 16, 125, 113, 10 ** 19 + 1, rng.randint(2, 10 ** 12)]) * rng.choice([1, 1, -1])
        cases.append((x, rng.randint(-5, 20), d, rng.randint(-5, 20)))
    outs = H.replay_lines(['binop\tDiv\tBigDecimal\tBigDecimal\t%s\t%s' % (H.dec_str(x, sa), H.dec_str(d, sb)) for x, sa, d, sb in cases])
    mism = []
    S.BITS_MODE[:] = ['uf', 0]
    for (x, sa, d, sb), nat in zip(cases, outs):
        if rep is not None:
            bad = nat.startswith('PANIC')
            if not bad:
                ri, rs = H.parse_dec(nat)
                bad = not py_div_check(x, sa, d, sb, ri, rs, P)
            if bad:
                H.probe_violation(rep, PROP, 'native (%d@%d) / (%d@%d) = %s is neither exact nor >= %d digits within half a unit' % (x, sa, d, sb, nat, P), {'kind': 'probe', 'den': d}, {'x': x, 's0': sa, 'sb': sb}, nat)
                continue
        m = E.Machine(prog, (), [], E.Stats(), loop_bound=3000)
        try:
            r = m.call('<BigDecimal as std::ops::Div>::div', [C.dec(x, sa), C.dec(d, sb)], ['BigDecimal', 'BigDecimal'], 'BigDecimal')
            mine = H.dec_str(r.fields[0], r.fields[1])
        except E.Panic:
            mine = 'PANIC'
        except E.PathEnd as e:
            mine = 'ENGINE:%s' % e
        if mine != nat:
            mism.append({'case': [x, sa, d, sb], 'mirsym': mine, 'native': nat})
    return len(cases), mism


def known_match(v, findings):
    return None


def main(tier):
    rep = H.Report(PROP, tier)
    prog = H.get_program()
    rng = H.rng(PROP)
    P = default_precision(prog)
    if tier == 'quick':
        dens = sorted(set(list(range(1, 401)) + [2 ** i * 5 ** j for i in range(0, 21) for j in range(0, 9) if 2 ** i * 5 ** j <= 10 ** 6][::3]
                          + [97, 113, 999, 1001, 10 ** 19 - 1, 10 ** 19 + 1, 2 ** 64 - 1, 2 ** 64 + 1, 2 ** 144] + [rng.randint(2, 10 ** 40) for _ in range(10)]))
        Kd = 20
    else:
        dens = sorted(set(list(range(1, 2001)) + [2 ** i * 5 ** j for i in range(0, 61) for j in range(0, 31) if 2 ** i * 5 ** j <= 10 ** 24]
                          + [97, 113, 10 ** 19 - 1, 10 ** 19 + 1, 2 ** 64 - 1, 2 ** 64 + 1, 2 ** 144, 5 ** 144] + [rng.randint(2, 10 ** 120) for _ in range(200)]))
        Kd = 40
    tasks = [{'kind': 'induction', 'den': d, 'K': Kd, 'P': P} for d in dens]
    # over-long first quotient (numerator more than P digits longer than the denominator): the loop head is reached with
    # P+1, P+2, P+19 digits already; concrete widths so that any further handling of the result is executed, not cut off
    for t in tasks[:: (10 if tier == 'quick' else 4)] + [t for t in tasks if t['den'] in (3, 7, 10 ** 19 + 1, 2 ** 64 + 1)]:
        t['over'] = [P + 1, P + 2, P + 19]
    # numerators much longer than the precision window (more than P + digits(den) + 1 digits): the first quotient is
    # already over-long, nothing may be dropped from the numerator before it is divided
    for d in ([3, 7, 11, 999] if tier == 'quick' else [3, 6, 7, 9, 11, 13, 97, 999, 10 ** 19 + 1]):
        dd = len(str(d))
        for L in (P + dd + 1, P + dd + 2, P + dd + 3, P + dd + 20):
            tasks.append({'kind': 'induction', 'den': d, 'K': L, 'P': P, 'Lmin': L, 'long': True})
    for d in [3, -3, 7, -8, 10 ** 20 + 3, -(2 ** 70)]:
        tasks.append({'kind': 'signs', 'den': d, 'P': P})
    ovs = div_overloads(prog)
    for ov in ovs:
        lk, rk = C.kind_of(ov['lhs']), C.kind_of(ov['rhs'])
        other = rk if lk == 'dec' else lk
        gaps = [(0, 0), (2, 0), (0, 3), (-2, 1)] if (lk == 'dec' and rk == 'dec') else [(0, 0), (3, 3), (-2, -2)]
        for (ga, gb) in gaps:
            if other.startswith('float:'):
                zero, shortcuts, routes = [0.0], [1.0, -1.0, 2.0, -2.0], [3.0, 0.1, -7.25, 1.5e10]
            elif other.startswith('int:'):
                lo, hi = E.INT_RANGE[other[4:]]
                zero, shortcuts, routes = [0], [v for v in (1, -1, 2, -2) if lo <= v <= hi], [v for v in (3, -7, 10, 100, hi, lo) if lo <= v <= hi and v not in (0, 1, -1, 2, -2)]
            else:
                zero, shortcuts, routes = [0], [1, -1, 2, -2, 10, 100], [3, -7, 250, 10 ** 21 + 7]
            if lk != 'dec':
                # reversed form: the zero divisor is the decimal; numerators one (inverse shortcut) and a generic normal value
                zero = [1.0, 3.0] if other.startswith('float:') else [1, 3]
            for dv in zero:
                tasks.append({'kind': 'overload', 'ov': ov, 'mode': 'zero', 'dval': dv, 'ga': ga, 'gb': gb, 'P': P})
            for dv in shortcuts:
                tasks.append({'kind': 'overload', 'ov': ov, 'mode': 'shortcut', 'dval': dv, 'ga': ga, 'gb': gb, 'P': P})
            for dv in routes:
                tasks.append({'kind': 'overload', 'ov': ov, 'mode': 'route', 'dval': dv, 'ga': ga, 'gb': gb, 'P': P})
    rep.required_labels = {'step-over: exit', 'base: reaches the digit loop', 'base: returns before the loop', 'step: invariant preserved', 'step: exit', 'zero divisor panics',
                           'routes to impl_division', 'signs: recursion'}
    rep.bounds = {'default_precision_read_from_dump': P, 'denominators': '%d concrete denominators (1..100|2000, 2^i5^j, boundary values, seeded up to 10^40|10^120)' % len(dens),
                  'numerators': 'all x with |x| < 10^%d for the base case (digit count of the first quotient); unbounded in the inductive step' % Kd,
                  'overloads_discovered': len(ovs), 'overload divisors': 'zero, +-1, +-2, a few concrete others incl. type MIN/MAX; floats 3.0, 0.1, -7.25, 1.5e10'}
    rep.assumptions = ['BigInt div_rem / division by a concrete divisor = truncated division (num-bigint)', 'count_decimal_digits, get_rounding_term and == substituted by their contracts (C18/C07/C02)',
                       'cut-point induction: invariant X = q*d*10 + r, 0 <= r < 10d, 10 | r, 10^(prec-1) <= q < 10^prec with a ghost pow10 function constrained by true axiom instances']
    rep.outside = ['denominators outside the listed set for the rounding claim (symbolic divisors make q*d non-linear)', 'numerator one in reversed forms (routes to inverse(): C12, not applicable)',
                   'non-normal float divisors (return 0; not a "zero integer or zero decimal divisor")', 'float -> decimal conversion itself (C14)']
    sys.stderr.write('[C08] %d tasks (%d denominators, %d overloads), P=%d\n' % (len(tasks), len(dens), len(ovs), P))
    rep.validated, rep.validation_mismatches = validate(prog, rng, 100 if tier == 'quick' else 1000, P, rep)
    results = H.run_parallel(tasks, worker, progress=500)
    rep.add(results)
    findings = H.load_known_findings(PROP)
    for r in results:
        for v in r['violations']:
            ok, out = confirm(v, P)
            v['native'] = out
            if ok:
                v['replay_file'] = H.write_replay_file(PROP, v)
                rep.confirmed.append(v)
            else:
                rep.unconfirmed.append(v)
    return rep.finish()


def replay(path):
    import json
    v = json.load(open(path))
    ok, out = confirm(v, default_precision(H.get_program()))
    print('replay %s -> native %s ; violation reproduced: %s' % (path, out, ok))
    return 1 if ok else 0
