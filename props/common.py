"""Shared vocabulary of the property harnesses: symbolic operands by Rust type, overload discovery, oracles."""
import re
import z3

from mirsym import engine as E
from mirsym import summaries as S
from mirsym.engine import Agg, Ref, mk_enum, is_sym, INT_RANGE
from mirsym.resolve import parse_ty, strip_lifetimes

PRIMS_INT = ['u8', 'u16', 'u32', 'u64', 'u128', 'i8', 'i16', 'i32', 'i64', 'i128']
DEC_FORMS = ['BigDecimal', '&BigDecimal', "BigDecimalRef<'_>"]
BIGINT_FORMS = ['num_bigint::BigInt', '&num_bigint::BigInt']
SCALE_BOUND = 2 ** 60


def dec(x, s):
    return Agg('struct', 'BigDecimal', [x, s])


def decref(m, x, s):
    """BigDecimalRef as produced by to_ref(): sign = sign of the integer (concrete discriminant => fork)"""
    if is_sym(x):
        k = m.choose([x < 0, x == 0, x > 0])
    else:
        k = 0 if x < 0 else (1 if x == 0 else 2)
    sign = ['Minus', 'NoSign', 'Plus'][k]
    mag = S.zabs(x) if k != 1 else 0
    if k == 0:
        mag = -x
    elif k == 2:
        mag = x
    return Agg('struct', 'BigDecimalRef', [mk_enum('Sign', sign), Ref([mag], 0), s])


def base_type(ty):
    t = strip_lifetimes(ty).strip()
    t = t.replace("<'_>", '')
    return t


def is_ref_ty(ty):
    return strip_lifetimes(ty).strip().startswith('&')


def kind_of(ty):
    """'dec' | 'bigint' | 'int:<t>' | 'float:<t>' | None   (reference-ness ignored)"""
    t = base_type(ty)
    if t.startswith('&mut '):
        t = t[5:]
    t = t.lstrip('&').strip()
    if t in ('BigDecimal', 'BigDecimalRef'):
        return 'dec'
    if t in ('num_bigint::BigInt', 'BigInt'):
        return 'bigint'
    if t in INT_RANGE:
        return 'int:' + t
    if t in ('f32', 'f64'):
        return 'float:' + t
    return None


def make_operand(m, ty, x, s):
    """build the MIR value of Rust type `ty` denoting the integer term x (at scale s for decimals)"""
    t = base_type(ty)
    if t == 'BigDecimal':
        return dec(x, s)
    if t == '&BigDecimal':
        return Ref([dec(x, s)], 0)
    if t == '&mut BigDecimal':
        return Ref([dec(x, s)], 0)
    if t == 'BigDecimalRef':
        return decref(m, x, s)
    if t in ('num_bigint::BigInt', 'BigInt'):
        return x
    if t in ('&num_bigint::BigInt', '&BigInt'):
        return Ref([x], 0)
    if t in INT_RANGE:
        return x
    if t.startswith('&') and t[1:] in INT_RANGE:
        return Ref([x], 0)
    raise ValueError('operand type ' + ty)


def assume_range(m, ty, x):
    k = kind_of(ty)
    if k and k.startswith('int:'):
        lo, hi = INT_RANGE[k[4:]]
        m.assume(z3.And(x >= lo, x <= hi))


def intoable_types(prog):
    """types T with `T: Into<BigDecimalRef>` that are nameable by users, read from the dump's From impls"""
    out = {"BigDecimalRef<'_>"}
    for d in prog.index.defs:
        if d.kind == 'impl' and d.trait == 'From' and d.self_ty and strip_lifetimes(d.self_ty).startswith('BigDecimalRef'):
            src = strip_lifetimes(d.body.params[0][1])
            if 'WithScale' in src:
                continue
            out.add(src)
    return out


def norm_ty(t):
    t = strip_lifetimes(t).replace("<'_>", '').strip()
    t = t.replace('num_bigint::', '')
    return t


def discover_overloads(prog, trait, method, lhs_types, rhs_types, assign=False):
    """all (lhs_ty, rhs_ty, def) such that `<lhs as Trait<rhs>>::method` resolves to a body of the crate"""
    intoable = {norm_ty(t) for t in intoable_types(prog)}
    found = []
    for lt in lhs_types:
        for rt in rhs_types:
            path = '<%s as %s<%s>>::%s' % (lt, trait, rt, method)
            a0 = ('&mut ' + lt) if assign else lt
            try:
                cands = prog.index.resolve(strip_lifetimes(path), [a0, rt])
            except Exception:
                cands = []
            if not cands:
                continue
            cands.sort(key=E.generic_vars)
            d, env = cands[0]
            if len(cands) > 1 and E.generic_vars(cands[1]) == E.generic_vars(cands[0]):
                continue
            ok = True
            for var, bound in env.items():
                if var in ('$t', '$imp', '$res', '$method'):
                    continue
                from mirsym.engine import ty_to_str
                if norm_ty(ty_to_str(bound)) not in intoable:
                    ok = False
            if ok:
                found.append((lt, rt, path, d))
    return found


def pow10(k):
    return 10 ** k


def value_eq_cond(ri, rs_minus_base, expect_num, expect_den_pow):
    """(ri * 10^-(rs)) == expect_num * 10^-(expect_den_pow)  with concrete exponents, as a linear-by-constants relation.
    rs_minus_base and expect_den_pow are python ints (scales relative to a common symbolic base)."""
    M = max(rs_minus_base, expect_den_pow)
    return ri * 10 ** (M - rs_minus_base) == expect_num * 10 ** (M - expect_den_pow)


def dec_fields(v):
    """(integer term, scale term) of a BigDecimal or BigDecimalRef value"""
    v = S.deref(v)
    if v.name == 'BigDecimal':
        return v.fields[0], v.fields[1]
    if v.name == 'BigDecimalRef':
        sign, digits, scale = v.fields
        mag = S.deref(digits)
        x = -mag if sign.variant == 'Minus' else (0 if sign.variant == 'NoSign' else mag)
        return x, scale
    raise ValueError('not a decimal: %r' % (v,))


def config_consts(prog):
    """build-time constants as they appear in the current dump"""
    out = {}
    for k, (ty, v) in prog.consts.items():
        name = k.split('::')[-1]
        mo = re.match(r'^const (-?\d+)_', v)
        if mo and name in ('DEFAULT_PRECISION', 'EXPONENTIAL_FORMAT_LEADING_ZERO_THRESHOLD', 'EXPONENTIAL_FORMAT_TRAILING_ZERO_THRESHOLD', 'FMT_MAX_INTEGER_PADDING'):
            out[name] = int(mo.group(1))
    return out
