"""C05 — parsing yields exactly the denoted number, rejects all else, never panics."""
import sys
import z3

from mirsym import harness as H
from mirsym import engine as E
from mirsym import summaries as S
from mirsym.engine import Agg, Ref, is_sym
from . import common as C

PROP = 'C05'
I64 = (-2 ** 63, 2 ** 63 - 1)
FIRST_CLASSES = ['digit', 'plus', 'minus', 'dot', 'underscore', 'e', 'E', 'other']


def class_cond(c, cls):
    return {'digit': z3.And(c >= 48, c <= 57), 'plus': c == 43, 'minus': c == 45, 'dot': c == 46, 'underscore': c == 95, 'e': c == 101, 'E': c == 69,
            'other': z3.And(z3.Or(c < 48, c > 57), c != 43, c != 45, c != 46, c != 95, c != 101, c != 69)}[cls]


# ---------------------------------------------------------------------------------- reference recogniser / evaluator
# Written directly from the property text; it forks on the same solver, so each implementation path is refined until the
# reference outcome is determined, and the two outcomes are then compared symbolically.

def ref_parse(m, cs):
    def isc(c, *codes):
        if isinstance(c, S.IntRender):
            return False
        if isinstance(c, int):
            return c in codes
        return m.branch_bool(z3.Or([c == k for k in codes]))

    def isdigit(c):
        if isinstance(c, S.IntRender):
            return False
        if isinstance(c, int):
            return 48 <= c <= 57
        return m.branch_bool(z3.And(c >= 48, c <= 57))
    i, n = 0, len(cs)
    neg = False
    if i < n and isc(cs[i], 43, 45):
        neg = isc(cs[i], 45)
        i += 1
    digits_seen, val, frac, seen_dot = 0, 0, 0, False
    while i < n:
        c = cs[i]
        if isdigit(c):
            val = val * 10 + (c - 48)
            digits_seen += 1
            if seen_dot:
                frac += 1
        elif digits_seen > 0 and isc(c, 95):
            pass
        elif not seen_dot and isc(c, 46):
            seen_dot = True
        elif isc(c, 101, 69):
            break
        else:
            return None
        i += 1
    if digits_seen == 0:
        return None
    exp = 0
    if i < n:
        i += 1
        rest = cs[i:]
        if len(rest) == 1 and isinstance(rest[0], S.IntRender):
            exp = rest[0].t
        else:
            if any(isinstance(c, S.IntRender) for c in rest):
                raise E.Unsupported('reference: mixed exponent rendering')
            eneg = False
            j = 0
            if j < len(rest) and isc(rest[j], 43, 45):
                eneg = isc(rest[j], 45)
                j += 1
            if j >= len(rest):
                return None
            ev = 0
            while j < len(rest):
                if not isdigit(rest[j]):
                    return None
                ev = ev * 10 + (rest[j] - 48)
                j += 1
            exp = -ev if eneg else ev
            # i128 range of the exponent literal itself
            if not m.branch_bool(z3.And(exp >= -2 ** 127, exp < 2 ** 127) if is_sym(exp) else (-2 ** 127 <= exp < 2 ** 127)):
                return None
    scale = frac - exp
    fits = z3.And(scale >= I64[0], scale <= I64[1]) if is_sym(scale) else (I64[0] <= scale <= I64[1])
    if not m.branch_bool(fits):
        return None
    return (-val if neg else val), scale


def call_parse(m, chars, entry='from_str', radix=10):
    s = S.str_slice(S.StrV(list(chars)))
    if entry == 'from_str':
        return m.call('<BigDecimal as FromStr>::from_str', [s], ['&str'], 'Result<BigDecimal, ParseBigDecimalError>')
    if entry == 'from_str_radix':
        return m.call('<BigDecimal as num_traits::Num>::from_str_radix', [s, radix], ['&str', 'u32'], 'Result<BigDecimal, ParseBigDecimalError>')
    raise AssertionError(entry)


def compare(m, r, ref, text):
    if r.variant == 'Ok':
        m.labels.add('accepted')
        if ref is None:
            return [('accepted strings are decimal numerals: ' + text, True)]
        pi, ps = r.fields[0].fields
        return [('value is exactly the denoted number: ' + text, z3.Or(pi != ref[0], ps != ref[1]))]
    m.labels.add('rejected')
    if ref is not None:
        return [('every decimal numeral is accepted: ' + text, True)]
    return []


def run_chars(N, first_cls):
    cs = [z3.Int('c%d' % i) for i in range(N)]

    def run(m):
        m.witness = dict(('c%d' % i, c) for i, c in enumerate(cs))
        S.DIGIT_BOUND[0] = 40
        for c in cs:
            m.assume(z3.And(c >= 0, c <= 0x10FFFF, z3.Or(c < 0xD800, c > 0xDFFF)))
        if N:
            m.assume(class_cond(cs[0], first_cls))
        r = call_parse(m, cs)
        ref = ref_parse(m, cs)
        return compare(m, r, ref, 'N=%d' % N)
    return run


WIDE = {2: [0xC3, 0xA9], 3: [0xE2, 0x82, 0xAC], 4: [0xF0, 0x9F, 0x98, 0x80]}     # U+00E9, U+20AC, U+1F600 as UTF-8


def run_utf8(N, at, width):
    """N symbolic ASCII chars with one multi-byte char (given UTF-8 width) inserted before position `at`: the text is held
    as its UTF-8 bytes, so byte offsets and char indices differ after the wide char; the result must be an error value"""
    cs = [z3.Int('c%d' % i) for i in range(N)]

    def run(m):
        m.witness = dict(('c%d' % i, c) for i, c in enumerate(cs))
        S.DIGIT_BOUND[0] = 40
        for c in cs:
            m.assume(z3.And(c >= 0, c < 0x80))
        items = list(cs[:at]) + WIDE[width] + list(cs[at:])
        r = call_parse(m, items)
        m.labels.add('multi-byte text')
        if r.variant == 'Ok':
            return [('a string containing a non-ASCII char is not a numeral', True)]
        m.labels.add('rejected')
        return []
    return run


def run_structured(shape):
    """sign? int-digits [. frac-digits] e <symbolic exponent>; digits symbolic; exponent any integer with |e| <= 2^127+1"""
    sign, nint, nfrac, us = shape['sign'], shape['nint'], shape['nfrac'], shape.get('underscore')
    ex = z3.Int('ex')
    ds = [z3.Int('d%d' % i) for i in range(nint + nfrac)]

    def run(m):
        m.witness = dict(('d%d' % i, d) for i, d in enumerate(ds))
        m.witness['ex'] = ex
        S.DIGIT_BOUND[0] = 60
        for d in ds:
            m.assume(z3.And(d >= 48, d <= 57))
        m.assume(z3.And(ex >= -2 ** 127 - 2, ex <= 2 ** 127 + 2))
        chars = []
        if sign:
            chars.append(ord(sign))
        body = list(ds[:nint])
        if us is not None and len(body) > us:
            body.insert(us + 1, 95)
        chars += body
        if nfrac or shape.get('dot'):
            chars.append(46)
            chars += list(ds[nint:])
        chars.append(101 if shape.get('lower', True) else 69)
        zp = shape.get('zeropad')
        if zp is None:
            chars.append(S.IntRender(ex, shape.get('plus', False)))
        else:
            # zero-padded exponent: [sign] 0{zp} <magnitude>; the magnitude is rendered, the sign is a concrete char
            esign = shape.get('esign')
            m.assume(ex >= 0 if esign != '-' else ex <= 0)
            if esign:
                chars.append(ord(esign))
            chars += [48] * zp
            chars.append(S.IntRender(ex if esign != '-' else -ex, False))
        r = call_parse(m, chars)
        # reference by hand for this shape (the exponent literal must itself fit i128)
        val = 0
        for d in ds:
            val = val * 10 + (d - 48)
        if sign == '-':
            val = -val
        scale = nfrac - ex
        okc = z3.And(ex >= -2 ** 127, ex < 2 ** 127, scale >= I64[0], scale <= I64[1])
        ok = m.branch_bool(okc) if (nint + nfrac) > 0 else False
        if (nint + nfrac) == 0:
            ref = None
        else:
            ref = (val, scale) if ok else None
        m.labels.add('exponent: scale in range' if ref else 'exponent: scale overflow rejected')
        return compare(m, r, ref, 'shape %r' % (shape,))
    return run


def run_radix(N):
    cs = [z3.Int('c%d' % i) for i in range(N)]
    radix = z3.Int('radix')

    def run(m):
        m.witness = dict(('c%d' % i, c) for i, c in enumerate(cs))
        m.witness['radix'] = radix
        for c in cs:
            m.assume(z3.And(c >= 0, c <= 0x10FFFF))
        m.assume(z3.And(radix >= 0, radix < 2 ** 32, radix != 10))
        r = call_parse(m, cs, 'from_str_radix', radix)
        m.labels.add('radix')
        return [('a radix other than 10 is an error', r.variant == 'Ok')]
    return run


def worker(t):
    prog = H.get_program()
    S.BITS_MODE[:] = ['ladder', 192]        # exact bit-length facts (the pinned code of this property never asks for bits() of a symbolic integer; rewrites might)
    k = t['kind']
    run = run_chars(t['N'], t['first']) if k == 'chars' else (run_structured(t['shape']) if k == 'structured' else (run_utf8(t['N'], t['at'], t['width']) if k == 'utf8' else run_radix(t['N'])))
    return H.explore_task(prog, run, task=t, loop_bound=4000, timeout_ms=60000, deadline_s=1200, max_paths=400000)


def model_string(t, mdl):
    if t['kind'] == 'utf8':
        cs = [chr(mdl['c%d' % i]) for i in range(t['N'])]
        return ''.join(cs[:t['at']]) + bytes(WIDE[t['width']]).decode('utf-8') + ''.join(cs[t['at']:])
    if t['kind'] in ('chars', 'radix'):
        return ''.join(chr(mdl['c%d' % i]) for i in range(t['N']))
    sh = t['shape']
    ds = [chr(mdl['d%d' % i]) for i in range(sh['nint'] + sh['nfrac'])]
    body = ds[:sh['nint']]
    if sh.get('underscore') is not None and len(body) > sh['underscore']:
        body.insert(sh['underscore'] + 1, '_')
    s = (sh['sign'] or '') + ''.join(body)
    if sh['nfrac'] or sh.get('dot'):
        s += '.' + ''.join(ds[sh['nint']:])
    e = mdl['ex']
    if sh.get('zeropad') is not None:
        s += ('e' if sh.get('lower', True) else 'E') + (sh.get('esign') or '') + '0' * sh['zeropad'] + str(abs(e))
        return s
    s += ('e' if sh.get('lower', True) else 'E') + (('+' if sh.get('plus') and e >= 0 else '') + str(e))
    return s


def py_ref(s):
    """independent python reference of the grammar in the property -> (int, scale) or None"""
    import re
    mo = re.fullmatch(r'([+-]?)([0-9_.]*)(?:[eE]([+-]?[0-9]+))?', s)
    if not mo:
        return None
    sign, body, exp = mo.groups()
    if body.count('.') > 1:
        return None
    digits_seen = 0
    for ch in body:
        if ch.isdigit():
            digits_seen += 1
        elif ch == '_' and digits_seen == 0:
            return None
    if digits_seen == 0:
        return None
    if not all(ord(ch) < 128 for ch in s):
        return None
    ip, _, fp = body.partition('.')
    val = int((ip + fp).replace('_', ''))
    frac = len(fp.replace('_', ''))
    e = int(exp) if exp else 0
    if not (-2 ** 127 <= e < 2 ** 127):
        return None
    scale = frac - e
    if not (I64[0] <= scale <= I64[1]):
        return None
    return (-val if sign == '-' else val), scale


def confirm(v):
    t, mdl = v['task'], v['model']
    if not mdl:
        return False, 'no model'
    try:
        s = model_string(t, mdl)
    except (ValueError, OverflowError):
        return False, 'model is not a scalar value sequence'
    hexs = s.encode('utf-8', 'surrogatepass').hex()
    if t['kind'] == 'radix':
        out = H.replay_lines(['parse\t%s\t%d' % (hexs, mdl['radix'])])[0]
        return out != 'Err', out
    out = H.replay_lines(['parse\t%s\t10' % hexs])[0]
    ref = py_ref(s)
    if out.startswith('PANIC'):
        return True, out
    if v.get('kind') == 'panic':
        # an arithmetic-overflow event wraps in the release profile; in the dev profile (overflow checks on) it is a panic
        dbg = H.replay_lines(['parse\t%s\t10' % hexs], 'debug')[0]
        if dbg.startswith('PANIC'):
            return True, 'debug profile: %s ; release profile: %s' % (dbg[:100], out[:60])
    exp = 'Err' if ref is None else H.dec_str(*ref)
    return out != exp, '%r -> %s (reference %s)' % (s, out, exp)


def known_match(v, findings):
    return None


def validate(prog, rng, n, rep=None):
    alphabet = '017+-.eE_x '
    cases = []
    for i in range(n):
        L = rng.randint(0, 7)
        cases.append(''.join(rng.choice(alphabet) for _ in range(L)))
    cases += ['1e5', '-1.5e-3', '1_000.5', '.5', '5.', '.', '-.', '1e', 'e1', '٣', '1e+', '+.5e1', '1__2', '1e9223372036854775808', '1e-9223372036854775808',
              '0.1e-9223372036854775807', '1e170141183460469231731687303715884105728']
    outs = H.replay_lines(['parse\t%s\t10' % s.encode().hex() for s in cases])
    mism = []
    S.DIGIT_BOUND[0] = 60
    for s, nat in zip(cases, outs):
        if rep is not None:
            ref = py_ref(s)
            exp = 'Err' if ref is None else H.dec_str(*ref)
            if nat != exp:
                H.probe_violation(rep, PROP, 'native parse of %r gives %s, reference %s' % (s, nat, exp), {'kind': 'probe'}, {'string': s}, nat)
                continue
        m = E.Machine(prog, (), [], E.Stats(), loop_bound=4000)
        try:
            r = call_parse(m, [ord(ch) for ch in s])
            mine = H.dec_str(*r.fields[0].fields) if r.variant == 'Ok' else 'Err'
        except E.Panic:
            mine = 'PANIC'
        except E.PathEnd as e:
            mine = 'ENGINE:%s' % e
        if mine != nat:
            mism.append({'case': s, 'mirsym': mine, 'native': nat})
    return len(cases), mism


def main(tier):
    rep = H.Report(PROP, tier)
    prog = H.get_program()
    rng = H.rng(PROP)
    Nmax = 6 if tier == 'quick' else 8
    tasks = [{'kind': 'chars', 'N': 0, 'first': 'other'}]
    for N in range(1, Nmax + 1):
        for cls in FIRST_CLASSES:
            tasks.append({'kind': 'chars', 'N': N, 'first': cls})
    shapes = []
    for sign in (None, '-', '+'):
        for nint, nfrac in [(1, 0), (0, 1), (3, 2), (1, 3), (0, 0), (12, 0), (20, 20)]:
            shapes.append({'sign': sign, 'nint': nint, 'nfrac': nfrac, 'lower': sign != '+', 'plus': sign == '-'})
    # zero-padded exponents (leading zeros do not change the value; the field can be arbitrarily long)
    for zp in (1, 2, 17, 18, 19, 20, 21, 39, 40):
        for esign in (None, '+', '-'):
            if zp in (1, 19, 20, 21, 40) or esign is None:
                shapes.append({'sign': None, 'nint': 1, 'nfrac': 1, 'lower': zp % 2 == 0, 'plus': False, 'zeropad': zp, 'esign': esign})
    shapes.append({'sign': None, 'nint': 4, 'nfrac': 2, 'underscore': 1})
    shapes.append({'sign': '-', 'nint': 2, 'nfrac': 0, 'dot': True})
    for sh in shapes:
        tasks.append({'kind': 'structured', 'shape': sh})
    # text held as UTF-8 bytes with one multi-byte char: byte offsets and char indices part ways behind it
    for N in range(0, (5 if tier == 'quick' else 6) + 1):
        for at in range(0, N + 1):
            for width in (2, 3, 4) if (tier != 'quick' or N <= 3) else (2,):
                tasks.append({'kind': 'utf8', 'N': N, 'at': at, 'width': width})
    for N in (0, 1, 2, 3):
        tasks.append({'kind': 'radix', 'N': N})
    tasks.sort(key=lambda t: -t.get('N', 0))
    rep.required_labels = {'multi-byte text', 'accepted', 'rejected', 'radix', 'exponent: scale in range', 'exponent: scale overflow rejected'}
    rep.bounds = {'arbitrary strings': 'every string of 0..%d characters, each character any Unicode scalar value (symbolic)' % Nmax,
                  'structured numerals': '%d shapes: sign, up to 20+20 symbolic digits, underscore, dot, exponent any integer in +-(2^127+2) (symbolic, travels as a rendered integer)' % len(shapes),
                  'radix': 'any u32 != 10, strings of length <= 3'}
    rep.assumptions = ['in the arbitrary-string tasks positions are character positions (sound for code that slices only at offsets found by ASCII patterns); the utf8 tasks hold the text as UTF-8 bytes with one concrete multi-byte char so that char indices and byte offsets differ, and slicing inside a char panics as in std',
                       'i128::from_str and BigInt::from_str_radix acceptance rules as summarised (std; num-bigint 0.4)', 'str::from_utf8 in parse_bytes is std']
    rep.outside = ['arbitrary strings longer than the bound', 'parse_bytes UTF-8 validation itself']
    sys.stderr.write('[C05] %d tasks\n' % len(tasks))
    rep.validated, rep.validation_mismatches = validate(prog, rng, 400 if tier == 'quick' else 4000, rep)
    results = H.run_parallel(tasks, worker, progress=20)
    rep.add(results)
    findings = H.load_known_findings(PROP)
    for r in results:
        for v in r['violations']:
            ok, out = confirm(v)
            v['native'] = out
            if ok:
                v['replay_file'] = H.write_replay_file(PROP, v)
                rep.confirmed.append(v)
            else:
                rep.unconfirmed.append(v)
    return rep.finish()


def replay(path):
    import json
    v = json.load(open(path))
    ok, out = confirm(v)
    print('replay %s -> native %s ; violation reproduced: %s' % (path, out, ok))
    return 1 if ok else 0
