"""C11 — cube root is the true root rounded as the context dictates, for both signs (relative to the integer-cbrt contract)."""
import json
import sys
import z3

from mirsym import harness as H
from mirsym import engine as E
from mirsym import summaries as S
from mirsym.engine import Agg, Ref, is_sym
from . import common as C
from . import contracts as K
from . import spec
from .c07 import ctx_val
from .c06 import ref_round_pair_up

PROP = 'C11'
KNOWN_IDS = set(f['id'] for f in H.load_known_findings('C11'))      # regions are split off only while still listed as findings
MODES = spec.MODES


def call_cbrt(m, x, scale, p, mode):
    return m.call('BigDecimal::cbrt_with_context', [Ref([C.dec(x, scale)], 0), Ref([ctx_val(p, mode)], 0)], ['&BigDecimal', '&Context'], 'BigDecimal')


def run_cbrt(nd, scale, p, mode, sign):
    n = z3.Int('n')

    def run(m):
        m.witness = {'n': n}
        m.root_facts = []
        bound = max(nd, 3 * (p + 4)) + 8
        S.DIGIT_BOUND[0] = bound
        K.DIGITS_MAX[0] = bound
        K.ROOT_DIGITS_MAX[0] = bound + 4
        if nd == 0:
            m.assume(n == 0)
        else:
            m.assume(z3.And(n >= 10 ** (nd - 1), n < 10 ** nd))
        x = n if sign >= 0 else -n
        r = call_cbrt(m, x, scale, p, mode)
        ri, rs = r.fields
        if nd == 0:
            m.labels.add('zero')
            return [('cbrt(0) is zero', ri != 0)]
        if not m.root_facts:
            m.labels.add('shortcut')
            sc = m.concretize(rs)
            one = (ri == 10 ** sc) if sc >= 0 else z3.BoolVal(False)
            return [('shortcut only for the value one', z3.Not(z3.And(ri == x, rs == scale, one)))]
        if len(m.root_facts) != 1:
            return [('exactly one integer cube root', True)]
        N, r0, exact = m.root_facts[0]
        e = None
        for cand in range(0, 3 * (p + 4) + 4):
            if not m.feasible(N != n * 10 ** cand):
                e = cand
                break
        if e is None:
            return [('the radicand is |n| * 10^e', True)]
        if (e + scale) % 3:
            m.labels.add('bad residue')
            return [('e + scale must be divisible by three', True)]
        Eh = (e + scale) // 3
        d = K._digit_count_fork(m, r0, 'root digits')
        if d <= p:
            return [('the root carries more than p digits before rounding', True)]
        k = d - p
        q, rem = m.fresh('rq'), m.fresh('rr')
        m.assume(z3.And(r0 == q * 10 ** k + rem, rem >= 0, rem < 10 ** k, q >= 0))
        neg = sign < 0
        up = spec.round_up_cond(mode, neg, q, rem, 10 ** k, exact)
        mag = z3.If(up, q + 1, q)
        sc = m.concretize(rs)
        es = Eh - k
        M = max(sc, es)
        rmag = z3.If(ri >= 0, ri, -ri)
        wrong_val = rmag * 10 ** (M - sc) != mag * 10 ** (M - es)
        region_sticky = z3.And(z3.Not(exact), z3.Or(rem == 0, 2 * rem == 10 ** k))
        m.labels.add('rounds the root (%s)' % ('negative' if neg else 'positive'))
        if 'C11-sticky' in KNOWN_IDS:
            return [('value is cbrt(x) rounded to p digits under the mode (Floor/Ceiling on the signed value)', z3.And(wrong_val, z3.Not(region_sticky))),
                    ('KNOWN:sticky', z3.And(wrong_val, region_sticky)),
                    ('sign of the root is the sign of x', (ri > 0) if neg else (ri < 0))]
        return [('value is cbrt(x) rounded to p digits under the mode (Floor/Ceiling on the signed value)', wrong_val),
                ('sign of the root is the sign of x', (ri > 0) if neg else (ri < 0))]
    return run


def worker(t):
    prog = H.get_program()
    S.BITS_MODE[:] = ['ladder', 192]        # exact bit-length facts (the pinned code of this property never asks for bits() of a symbolic integer; rewrites might)
    saved = list(E.DEFAULT_OVERRIDES)
    try:
        E.DEFAULT_OVERRIDES[:] = K.DIGIT_CONTRACTS + K.ROUNDING_TERM_CONTRACTS + K.EQ_CONTRACTS + K.CBRT_CONTRACTS
        r = H.explore_task(prog, run_cbrt(t['nd'], t['scale'], t['p'], t['mode'], t['sign']), task=t, loop_bound=3000, timeout_ms=60000, deadline_s=900, max_violations=6)
        known = [v for v in r['violations'] if v['detail'].startswith('KNOWN:')]
        r['violations'] = [v for v in r['violations'] if not v['detail'].startswith('KNOWN:')]
        r['known_hits'] = known[:1]
        return r
    finally:
        E.DEFAULT_OVERRIDES[:] = saved


def exact_cbrt_rounded(x, scale, p, mode):
    a = abs(x)
    if a == 0:
        return 0, 0
    nd = len(str(a))
    e = max(0, 3 * (p + 30) - nd)
    while (e + scale) % 3:
        e += 1
    N = a * 10 ** e
    r = K._iroot(N, 3)
    exact = r ** 3 == N
    d = len(str(r))
    k = d - p
    q, rem = divmod(r, 10 ** k)
    up = ref_round_pair_up(mode, x < 0, q, rem, 10 ** k, exact)
    mag = q + 1 if up else q
    return (-mag if x < 0 else mag), (e + scale) // 3 - k


def native_cbrt(x, scale, p, mode):
    return H.replay_lines(['cbrt\t%s\t%d\t%s' % (H.dec_str(x, scale), p, mode)])[0]


def confirm(v):
    t, mdl = v['task'], v['model']
    if not mdl:
        return False, 'no model'
    def one(n):
        x = n if t['sign'] >= 0 else -n
        out = native_cbrt(x, t['scale'], t['p'], t['mode'])
        if out.startswith('PANIC'):
            return True, out
        ri, rs = H.parse_dec(out)
        ei, es = exact_cbrt_rounded(x, t['scale'], t['p'], t['mode'])
        M = max(rs, es)
        return ri * 10 ** (M - rs) != ei * 10 ** (M - es), '%s (exact: %d@%d)' % (out, ei, es)
    ok, out = one(mdl['n'])
    if ok:
        return ok, out
    # The root contract leaves the integer root and its exactness flag free, so a model's n need not have the root the
    # model assumed.  Search natively among inputs of the same task shape that ARE consistent with an exact root
    # (perfect cubes times powers of ten, outside the known-finding region) before calling the model unconfirmed.
    for n in K.perfect_power_candidates(t['nd'], 3, mdl['n']):
        if in_known_region(n, t['scale'], t['p']):
            continue
        ok2, out2 = one(n)
        if ok2:
            mdl['n_from_solver'] = mdl['n']
            mdl['n'] = n
            return True, out2 + ' [witness found natively among perfect cubes of this task shape]'
    # still nothing: the defect may need an INEXACT root with a particular digit pattern.  Scan the task shape natively:
    # every input of this digit length when there are at most 9000 of them, otherwise a spread plus the neighbours of
    # perfect powers (their roots end in long runs of zeros / nines)
    nd = t['nd']
    if nd >= 1:
        lo_n, hi_n = 10 ** (nd - 1), 10 ** nd - 1
        if hi_n - lo_n < 9000:
            scan = list(range(lo_n, hi_n + 1))
        else:
            import random as _r
            rng = _r.Random(nd * 1000003 + t['p'])
            scan = [rng.randint(lo_n, hi_n) for _ in range(3000)]
            for base in K.perfect_power_candidates(nd, 3, mdl['n'], limit=200):
                scan += [base + d for d in (-2, -1, 1, 2) if lo_n <= base + d <= hi_n]
        scan = [n for n in scan if not in_known_region(n, t['scale'], t['p'])]
        sgn = 1 if t['sign'] >= 0 else -1
        outs = H.replay_lines(['cbrt\t%s\t%d\t%s' % (H.dec_str(sgn * n, t['scale']), t['p'], t['mode']) for n in scan], timeout=600)
        for n, o in zip(scan, outs):
            bad = o.startswith('PANIC')
            if not bad:
                ri, rs = H.parse_dec(o)
                ei, es = exact_cbrt_rounded(sgn * n, t['scale'], t['p'], t['mode'])
                M = max(rs, es)
                bad = ri * 10 ** (M - rs) != ei * 10 ** (M - es)
            if bad:
                mdl['n_from_solver'] = mdl['n']
                mdl['n'] = n
                return True, o + ' [witness found by a native scan of this task shape]'
    return ok, out


def in_known_region(x, scale, p):
    if 'C11-sticky' not in KNOWN_IDS:
        return False
    a = abs(x)
    nd = len(str(a))
    req = 3 * (p + 4)
    e = max(req - nd, 0)
    while (e + scale) % 3:
        e += 1
    N = a * 10 ** e
    r = K._iroot(N, 3)
    k = len(str(r)) - p
    if k <= 0 or r ** 3 == N:
        return False
    rem = r % 10 ** k
    return rem == 0 or 2 * rem == 10 ** k


def validate(prog, rng, n, rep=None):
    cases = []
    for i in range(n):
        nd = rng.randint(1, 30)
        cases.append((rng.randint(10 ** (nd - 1), 10 ** nd - 1) * rng.choice([1, -1]), rng.randint(-6, 12), rng.randint(1, 12), rng.choice(MODES)))
    outs = H.replay_lines(['cbrt\t%s\t%d\t%s' % (H.dec_str(x, sc), p, mode) for x, sc, p, mode in cases])
    mism = []
    saved = list(E.DEFAULT_OVERRIDES)
    try:
        E.DEFAULT_OVERRIDES[:] = K.CBRT_CONTRACTS + K.EQ_CONTRACTS
        S.DIGIT_BOUND[0] = 200
        S.BITS_MODE[:] = ['uf', 0]
        for (x, sc, p, mode), nat in zip(cases, outs):
            if rep is not None and not in_known_region(x, sc, p) and not nat.startswith('PANIC'):
                ri, rs = H.parse_dec(nat)
                ei, es = exact_cbrt_rounded(x, sc, p, mode)
                M = max(rs, es)
                if ri * 10 ** (M - rs) != ei * 10 ** (M - es):
                    H.probe_violation(rep, PROP, 'native cbrt(%d@%d, p=%d, %s) = %s, exact %d@%d' % (x, sc, p, mode, nat, ei, es), {'nd': len(str(abs(x))), 'scale': sc, 'p': p, 'mode': mode, 'sign': 1 if x >= 0 else -1}, {'n': abs(x)}, nat)
                    continue
            m = E.Machine(prog, (), [], E.Stats(), loop_bound=6000)
            m.root_facts = []
            try:
                r = call_cbrt(m, x, sc, p, mode)
                mine = H.dec_str(*r.fields)
            except E.PathEnd as e:
                mine = 'ENGINE:%s' % e
            if mine != nat:
                mism.append({'case': [x, sc, p, mode], 'mirsym': mine, 'native': nat})
    finally:
        E.DEFAULT_OVERRIDES[:] = saved
    return len(cases), mism


def main(tier):
    rep = H.Report(PROP, tier)
    prog = H.get_program()
    rng = H.rng(PROP)
    findings = H.load_known_findings(PROP)
    ps = [1, 2, 3] if tier == 'quick' else [1, 2, 3, 4, 5, 16]
    tasks = []
    for p in ps:
        w = 3 * (p + 4)
        nds = sorted(set([1, 2, 3, 4, 5, w - 2, w - 1, w, w + 1, w + 2, w + 3, w + 4])) if tier == 'quick' else list(range(1, w + 6))
        for nd in nds:
            for scale in (range(-3, 4) if tier == 'quick' else range(-8, 9)):
                for mode in MODES:
                    for sign in (1, -1):
                        if tier == 'quick' and (nd + scale + MODES.index(mode) + (sign > 0)) % 2 and nd not in (1, w):
                            continue
                        tasks.append({'nd': nd, 'scale': scale, 'p': p, 'mode': mode, 'sign': sign})
    if tier == 'thorough':
        # the default precision (100 digits) on a handful of short inputs (312-digit integer roots)
        for (nd, scale, mode, sign) in [(2, 1, 'HalfEven', 1), (3, 0, 'Floor', -1), (1, -1, 'Up', 1)]:
            tasks.append({'nd': nd, 'scale': scale, 'p': 100, 'mode': mode, 'sign': sign})
    for scale in (-4, 0, 5):
        tasks.append({'nd': 0, 'scale': scale, 'p': 2, 'mode': 'HalfEven', 'sign': 1})
    rep.required_labels = {'rounds the root (negative)', 'rounds the root (positive)', 'zero'}
    rep.bounds = {'precision p': ps, 'digits of the unscaled integer': 'small lengths and around the 3(p+4) switch (quick) / every length 1..3(p+4)+5 (thorough); all integers of each length symbolic',
                  'scale': '-3..3 (quick) / -8..8 (thorough): all residues mod 3', 'modes': MODES, 'signs': 'both'}
    rep.assumptions = ['BigUint::nth_root(3) contract: fresh r within the integer-cube-root bounds of the digit-count range, free Boolean for r^3 == N (the cube relation is NOT encoded)',
                       'digit counting / == by contract (C18, C02)']
    rep.outside = ['num-bigint nth_root itself', 'p beyond the listed values'] + (['the known-finding region (sticky information dropped)'] if KNOWN_IDS else [])
    sys.stderr.write('[C11] %d tasks\n' % len(tasks))
    results = H.run_parallel(tasks, worker, progress=200)
    rep.add(results)
    sticky_seen = any(r.get('known_hits') for r in results)
    for r in results:
        for v in r['violations']:
            ok, out = confirm(v)
            v['native'] = out
            if ok:
                v['replay_file'] = H.write_replay_file(PROP, v)
                rep.confirmed.append(v)
            else:
                rep.unconfirmed.append(v)
    for f in findings:
        w = f['witness']
        out = native_cbrt(int(w['int']), w['scale'], w['p'], w['mode'])
        ei, es = exact_cbrt_rounded(int(w['int']), w['scale'], w['p'], w['mode'])
        still = True
        if not out.startswith('PANIC'):
            ri, rs = H.parse_dec(out)
            M = max(rs, es)
            still = ri * 10 ** (M - rs) != ei * 10 ** (M - es)
        if still:
            rep.known_hits.append((dict(f, what='%s [witness %s@%d p=%d %s -> %s, exact %d@%d; symbolic check sees the region: %s]' % (f['what'], w['int'], w['scale'], w['p'], w['mode'], out, ei, es, sticky_seen)), None))
        else:
            rep.notes.append('known finding %s no longer reproduces natively' % f['id'])
    rep.extra['known_regions_seen_symbolically'] = {'sticky': sticky_seen}
    rep.validated, rep.validation_mismatches = validate(prog, rng, 150 if tier == 'quick' else 1500, rep)
    return rep.finish()


def replay(path):
    v = json.load(open(path))
    ok, out = confirm(v)
    print('replay %s -> native %s ; violation reproduced: %s' % (path, out, ok))
    return 1 if ok else 0
