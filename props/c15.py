"""C15 — integer conversions truncate toward zero and report overflow as None; From<int> is exact; is_integer."""
import sys
import z3

from mirsym import harness as H
from mirsym import engine as E
from mirsym import summaries as S
from mirsym.engine import Agg, Ref, INT_RANGE
from . import common as C

PROP = 'C15'
TARGETS = ['i64', 'i128', 'u64', 'u128']


def trunc_spec(m, x, scale):
    """integer term t = trunc(x * 10^-scale) for a concrete scale (fresh q, r for positive scales)"""
    if scale <= 0:
        return x * 10 ** (-scale)
    q, r = m.fresh('tq'), m.fresh('tr')
    p = 10 ** scale
    m.assume(z3.And(x == q * p + r, z3.If(x >= 0, z3.And(r >= 0, r < p), z3.And(r <= 0, -r < p))))
    return q


def exec_to_prim(m, selfty, target, scale, x):
    if selfty == 'BigDecimal':
        a = Ref([C.dec(x, scale)], 0)
        path, aty = '<BigDecimal as num_traits::ToPrimitive>::to_%s' % target, '&BigDecimal'
    else:
        a = Ref([C.decref(m, x, scale)], 0)
        path, aty = "<BigDecimalRef<'_> as num_traits::ToPrimitive>::to_%s" % target, "&BigDecimalRef<'_>"
    return m.call(path, [a], [aty], 'Option<%s>' % target)


def run_to_prim(selfty, target, scale):
    x = z3.Int('x')

    def run(m):
        m.witness = {'x': x}
        r = exec_to_prim(m, selfty, target, scale, x)
        t = trunc_spec(m, x, scale)
        lo, hi = INT_RANGE[target]
        fits = z3.And(t >= lo, t <= hi)
        if lo == 0:
            fits = z3.And(fits, x >= 0)
        if r.variant == 'Some':
            m.labels.add('Some')
            return [('Some(v): v is the truncation and fits', z3.Not(z3.And(r.fields[0] == t, fits)))]
        m.labels.add('None')
        return [('None only when the truncation does not fit (or negative -> unsigned)', fits)]
    return run


def run_to_bigint(scale):
    x = z3.Int('x')

    def run(m):
        m.witness = {'x': x}
        r = m.call('<BigDecimal as num_bigint::ToBigInt>::to_bigint', [Ref([C.dec(x, scale)], 0)], ['&BigDecimal'], 'Option<BigInt>')
        t = trunc_spec(m, x, scale)
        if r.variant != 'Some':
            return [('to_bigint is always Some', True)]
        return [('to_bigint truncates toward zero', r.fields[0] != t)]
    return run


def run_is_integer(scale):
    x = z3.Int('x')

    def run(m):
        m.witness = {'x': x}
        r = m.call('BigDecimal::is_integer', [Ref([C.dec(x, scale)], 0)], ['&BigDecimal'], 'bool')
        if scale <= 0:
            spec = True
        else:
            spec = x % (10 ** scale) == 0
        if isinstance(r, bool):
            return [('is_integer', z3.Not(spec) if r else spec) if not isinstance(spec, bool) else ('is_integer', r != spec)]
        return [('is_integer', r != spec)]
    return run


def run_from(kind, ty):
    x, s = z3.Ints('x s')

    def run(m):
        m.witness = {'x': x, 's': s}
        if kind == 'from':          # From<ty> / From<&ty>
            base = ty.lstrip('&')
            C.assume_range(m, base, x)
            arg = Ref([x], 0) if ty.startswith('&') else x
            r = m.call('<BigDecimal as From<%s>>::from' % ty, [arg], [ty], 'BigDecimal')
            ri, rs = r.fields
            return [('From<%s> exact with scale 0' % ty, z3.Or(ri != x, rs != 0))]
        if kind == 'from_pair':     # From<(T, i64)>
            C.assume_range(m, ty, x)
            m.assume(z3.And(s >= -2 ** 63, s < 2 ** 63))
            r = m.call('<BigDecimal as From<(%s, i64)>>::from' % ty, [Agg('tuple', '()', [x, s])], ['(%s, i64)' % ty], 'BigDecimal')
            ri, rs = r.fields
            return [('From<(T,i64)> stores exactly', z3.Or(ri != x, rs != s))]
        if kind == 'from_primitive':
            C.assume_range(m, ty, x)
            r = m.call('<BigDecimal as num_traits::FromPrimitive>::from_%s' % ty, [x], [ty], 'Option<BigDecimal>')
            if r.variant != 'Some':
                return [('from_%s is Some' % ty, True)]
            ri, rs = r.fields[0].fields
            return [('from_%s exact' % ty, z3.Or(ri != x, rs != 0))]
        raise AssertionError(kind)
    return run


def worker(p):
    from . import contracts as K
    prog = H.get_program()
    S.BITS_MODE[:] = ['ladder', 192]        # exact bit-length facts (the pinned code of this property never asks for bits() of a symbolic integer; rewrites might)
    # digit counting (should a refactoring use it here) by its contract, open-ended beyond 60 digits
    K.DIGITS_MAX[0] = 60
    K.OPEN_ENDED[0] = True
    E.DEFAULT_OVERRIDES[:] = K.DIGIT_CONTRACTS
    k = p['kind']
    if k == 'to_prim':
        run = run_to_prim(p['self'], p['target'], p['scale'])
    elif k == 'to_bigint':
        run = run_to_bigint(p['scale'])
    elif k == 'is_integer':
        run = run_is_integer(p['scale'])
    else:
        run = run_from(k, p['ty'])
    return H.explore_task(prog, run, task=p, loop_bound=800, timeout_ms=60000, deadline_s=600)


def trunc_py(x, scale):
    if scale <= 0:
        return x * 10 ** (-scale)
    q = abs(x) // 10 ** scale
    return -q if x < 0 else q


def native_line(p, mdl):
    k = p['kind']
    if k == 'to_prim':
        return 'to_prim\t%s\t%s\t%s' % ('ref' if p['self'] != 'BigDecimal' else 'val', p['target'], H.dec_str(mdl['x'], p['scale']))
    if k == 'to_bigint':
        return 'to_bigint\t%s' % H.dec_str(mdl['x'], p['scale'])
    if k == 'is_integer':
        return 'is_integer\t%s' % H.dec_str(mdl['x'], p['scale'])
    if k == 'from':
        return 'from_prim\t%s\t%s' % (p['ty'], mdl['x'])
    if k == 'from_pair':
        return 'from_pair\t%s\t%s\t%s' % (p['ty'], mdl['x'], mdl['s'])
    return 'from_primitive\t%s\t%s' % (p['ty'], mdl['x'])


def expected(p, mdl):
    k = p['kind']
    x = mdl['x']
    if k == 'to_prim':
        t = trunc_py(x, p['scale'])
        lo, hi = INT_RANGE[p['target']]
        ok = lo <= t <= hi and (lo != 0 or x >= 0)
        return str(t) if ok else 'None'
    if k == 'to_bigint':
        return str(trunc_py(x, p['scale']))
    if k == 'is_integer':
        return 'true' if p['scale'] <= 0 or x % 10 ** p['scale'] == 0 else 'false'
    if k == 'from_pair':
        return H.dec_str(x, mdl['s'])
    return H.dec_str(x, 0)


def confirm(v):
    if not v['model']:
        return False, 'no model'
    out = H.replay_lines([native_line(v['task'], v['model'])])[0]
    return out != expected(v['task'], v['model']), out


def validate(prog, rng, n, rep=None):
    """translator validation: concrete cases near the type limits through the MIR executor and the native crate"""
    cases = []
    for i in range(n):
        target = rng.choice(TARGETS)
        lo, hi = INT_RANGE[target]
        scale = rng.choice([0, 0, 1, 2, 5, 19, 20, 21, -1, -3, -19, -20, -38, 40])
        base = rng.choice([lo, hi, 0, lo - 1, hi + 1, lo + 1, hi - 1, rng.randint(lo, hi)])
        if scale > 0:
            x = base * 10 ** scale + rng.choice([0, 1, -1, 5 * 10 ** (scale - 1), -5 * 10 ** (scale - 1)])
        else:
            x = base // 10 ** (-scale) + rng.choice([0, 1, -1])
        p = {'kind': 'to_prim', 'self': rng.choice(['BigDecimal', 'BigDecimalRef']), 'target': target, 'scale': scale}
        cases.append((p, {'x': x}))
    outs = H.replay_lines([native_line(p, mdl) for p, mdl in cases])
    mism = []
    for (p, mdl), nat in zip(cases, outs):
        if rep is not None and nat != expected(p, mdl):
            H.probe_violation(rep, PROP, 'native to_%s of %d@%d gives %s, exact %s' % (p['target'], mdl['x'], p['scale'], nat, expected(p, mdl)), p, mdl, nat)
            continue
        m = E.Machine(prog, (), [], E.Stats(), loop_bound=2000)
        try:
            r = exec_to_prim(m, p['self'], p['target'], p['scale'], mdl['x'])
            mine = str(r.fields[0]) if r.variant == 'Some' else 'None'
        except E.PathEnd as e:
            mine = 'ENGINE:%s' % e
        if mine != nat:
            mism.append({'case': p, 'x': mdl['x'], 'mirsym': mine, 'native': nat})
    return len(cases), mism


def main(tier):
    rep = H.Report(PROP, tier)
    prog = H.get_program()
    rng = H.rng(PROP)
    scales = list(range(-200, 201)) if tier == 'thorough' else list(range(-45, 46))
    tasks = []
    for sc in scales:
        for target in TARGETS:
            for st in ('BigDecimal', 'BigDecimalRef'):
                tasks.append({'kind': 'to_prim', 'self': st, 'target': target, 'scale': sc})
        tasks.append({'kind': 'to_bigint', 'scale': sc})
        tasks.append({'kind': 'is_integer', 'scale': sc})
    for t in C.PRIMS_INT:
        tasks.append({'kind': 'from', 'ty': t})
        tasks.append({'kind': 'from', 'ty': '&' + t})
        tasks.append({'kind': 'from_pair', 'ty': t})
    for t in ['i64', 'u64', 'i128', 'u128']:
        tasks.append({'kind': 'from_primitive', 'ty': t})
    tasks.append({'kind': 'from', 'ty': 'num_bigint::BigInt'})
    tasks.append({'kind': 'from_pair', 'ty': 'num_bigint::BigInt'})
    rep.required_labels = {'Some', 'None'}
    rep.bounds = {'x': 'unbounded integer', 'scales': scales, 'targets': TARGETS}
    rep.assumptions = ['BigInt::to_{i,u}{64,128} return Some exactly when the value is in range (num-bigint contract)',
                       'num_traits default methods (to_i32, to_u8, ...) are outside the crate and derive from to_i64/to_u64']
    rep.outside = ['|scale| > 45 (quick) / 60 (thorough)']
    sys.stderr.write('[C15] %d tasks\n' % len(tasks))
    rep.validated, rep.validation_mismatches = validate(prog, rng, 400 if tier == 'quick' else 4000, rep)
    results = H.run_parallel(tasks, worker, progress=500)
    rep.add(results)
    for r in results:
        for v in r['violations']:
            ok, out = confirm(v)
            v['native'] = out
            if ok:
                v['replay_file'] = H.write_replay_file(PROP, v)
                rep.confirmed.append(v)
            else:
                rep.unconfirmed.append(v)
    return rep.finish()


def replay(path):
    import json
    v = json.load(open(path))
    ok, out = confirm(v)
    print('replay %s -> native %s ; violation reproduced: %s' % (path, out, ok))
    return 1 if ok else 0
