"""C02 — equality and ordering are those of the numeric values."""
import re
import sys
import z3

from mirsym import harness as H
from mirsym import engine as E
from mirsym import summaries as S
from mirsym.engine import Agg, Ref, mk_enum
from . import common as C
from . import contracts as K

PROP = 'C02'

FUNCS = {
    'eq': ('<BigDecimal as PartialEq>::eq', 'val', 'bool'),
    'ref_eq_ref': ("<BigDecimalRef<'_> as PartialEq<BigDecimalRef<'_>>>::eq", 'ref', 'bool'),
    'ref_eq_borrow': ("<BigDecimalRef<'_> as PartialEq<&BigDecimal>>::eq", 'ref_borrow', 'bool'),
    'cmp': ('<BigDecimal as Ord>::cmp', 'val', 'Ordering'),
    'ref_cmp': ("<BigDecimalRef<'_> as Ord>::cmp", 'ref', 'Ordering'),
    'partial_cmp': ('<BigDecimal as PartialOrd>::partial_cmp', 'val', 'Option<Ordering>'),
    'ref_partial_cmp': ("<BigDecimalRef<'_> as PartialOrd>::partial_cmp", 'ref', 'Option<Ordering>'),
}


def call_cmp(m, fn, x, sa, y, sb):
    path, form, rty = FUNCS[fn]
    if form == 'val':
        a, b = Ref([C.dec(x, sa)], 0), Ref([C.dec(y, sb)], 0)
        tys = ['&BigDecimal', '&BigDecimal']
    elif form == 'ref':
        a, b = Ref([C.decref(m, x, sa)], 0), Ref([C.decref(m, y, sb)], 0)
        tys = ["&BigDecimalRef<'_>", "&BigDecimalRef<'_>"]
    else:
        a, b = Ref([C.decref(m, x, sa)], 0), Ref([Ref([C.dec(y, sb)], 0)], 0)
        tys = ["&BigDecimalRef<'_>", '&&BigDecimal']
    r = m.call(path, [a, b], tys, rty)
    if rty == 'Option<Ordering>':
        if r.variant != 'Some':
            return 'None'
        r = r.fields[0]
    return r


def run_cmp(fn, ga, gb, wx, wy, sx, sy, s0_conc=None):
    """x has exactly wx 32-bit words (0 => zero), sign sx; likewise y."""
    X, Y, s0v = z3.Ints('X Y s0')

    def run(m):
        s0 = s0v if s0_conc is None else s0_conc
        m.witness = {'X': X, 'Y': Y, 's0': s0}
        if s0_conc is None:
            m.assume(z3.And(s0 >= -C.SCALE_BOUND, s0 <= C.SCALE_BOUND))
        for V, w in ((X, wx), (Y, wy)):
            if w == 0:
                m.assume(V == 0)
            else:
                m.assume(z3.And(V >= 2 ** (32 * (w - 1)), V < 2 ** (32 * w)))
        x = X if sx >= 0 else -X
        y = Y if sy >= 0 else -Y
        try:
            r = call_cmp(m, fn, x, s0 + ga, y, s0 + gb)
        except E.Panic as p:
            if p.kind == 'ArithOverflow':
                m.labels.add('arith-overflow-seen')
            raise
        # numeric comparison of x*10^-(s0+ga) and y*10^-(s0+gb)
        if abs(ga - gb) > 100000:
            # astronomically different scales: the sign and the scale order decide (both non-zero), zero handled below
            big_a = ga < gb      # a has the smaller scale => larger magnitude
            lt = z3.If(z3.And(x == 0, y == 0), False,
                       z3.If(x == 0, y > 0, z3.If(y == 0, x < 0,
                       z3.If(z3.And(x < 0, y > 0), True, z3.If(z3.And(x > 0, y < 0), False,
                       z3.If(x > 0, z3.BoolVal(not big_a), z3.BoolVal(big_a)))))))
            eqv = z3.And(x == 0, y == 0)
        else:
            Mx = max(ga, gb)
            xs, ys = x * 10 ** (Mx - ga), y * 10 ** (Mx - gb)
            lt, eqv = xs < ys, xs == ys
        if isinstance(r, bool) or (E.is_sym(r) and z3.is_bool(r)):
            m.labels.add('eq:' + str(r) if isinstance(r, bool) else 'eq:sym')
            return [('== is numeric equality', r != eqv if E.is_sym(r) else (z3.Not(eqv) if r else eqv))]
        if r == 'None':
            return [('partial_cmp is total', True)]
        v = r.variant
        m.labels.add('cmp:' + v)
        exp = {'Less': lt, 'Equal': eqv, 'Greater': z3.And(z3.Not(lt), z3.Not(eqv))}[v]
        return [('cmp is the numeric order', z3.Not(exp))]
    return run


# log2(10) to 100 significant digits (sympy: log(10, 2).evalf(100)); an error below 1e-99 cannot change the floor of s*log2(10)
# for s < 2^41 unless the fractional part is within 1e-80 of an integer, which is checked
_LOG2_10_STR = '3.321928094887362347870319429489390175864831393024580612054756395815934776608625215850139743359370155'


def exact_log2_pow10_floor(s):
    if s <= 20000:
        return (10 ** s).bit_length() - 1
    from fractions import Fraction
    v = Fraction(_LOG2_10_STR) * s
    f = v.numerator // v.denominator
    frac = v - f
    eps = Fraction(1, 10 ** 80)
    if frac < eps or 1 - frac < eps:
        raise E.Unsupported('floor(s*log2(10)) not decidable at this precision for s=%d' % s)
    return f


def run_bits_bound(scales):
    """the bit-length early-out shared by == and cmp: highest_bit_lessthan_scaled(a, b, s) may only answer `true` when
    a < b*10^s holds for EVERY a, b of the observed bit lengths, i.e. when bits(a) < bits(b) + floor(log2 10^s).
    Bit lengths are symbolic (any u64 the allocator could produce), the scale is concrete (its float estimate is closed code)."""
    ab, bb, si = z3.Ints('a_bits b_bits scale_index')
    a, b = z3.Ints('a b')

    def run(m):
        m.witness = {'a_bits': ab, 'b_bits': bb, 'scale_index': si}
        k = m.choose_n(len(scales), lambda i: si == i)
        s = scales[k]
        m.assume(z3.And(ab >= 1, bb >= 1, ab < 2 ** 48, bb < 2 ** 48, a >= 1, b >= 1))

        def bits_override(mm, mo, args, tys, dty):
            x = S.deref(args[0])
            return ab if x is a else bb
        bits_override.__name__ = 'bits_symbolic'
        m.overrides.append((re.compile(r'^(?:num_bigint::)?BigUint::bits$'), bits_override))
        r = m.call('highest_bit_lessthan_scaled', [Ref([a], 0), Ref([b], 0), s], ['&num_bigint::BigUint', '&num_bigint::BigUint', 'u64'], 'bool')
        m.labels.add('bit-length early-out')
        F = exact_log2_pow10_floor(s)
        rb = r if E.is_sym(r) else z3.BoolVal(bool(r))
        return [('early-out answers true only when bits(a) < bits(b) + floor(log2(10^s))', z3.And(rb, ab >= bb + F))]
    return run


def worker(t):
    prog = H.get_program()
    if t.get('kind') == 'bits_bound':
        return H.explore_task(prog, run_bits_bound(t['scales']), task=t, loop_bound=200, timeout_ms=60000, deadline_s=600)
    W = max(t['wx'], t['wy'], 1)
    S.WORD_BOUND[0] = W + 1
    S.BITS_MODE[:] = ['table', 32 * W + 2]
    S.DIGIT_BOUND[0] = 10 * W + 2
    K.DIGITS_MAX[0] = 10 * W + 2
    saved = list(E.DEFAULT_OVERRIDES)
    try:
        E.DEFAULT_OVERRIDES[:] = K.DIGIT_CONTRACTS
        return H.explore_task(prog, run_cmp(t['fn'], t['ga'], t['gb'], t['wx'], t['wy'], t['sx'], t['sy'], t.get('s0')), task=t,
                              loop_bound=2000, timeout_ms=int(__import__("os").environ.get("VERIF_Z3_TIMEOUT_MS","120000")), deadline_s=1500)
    finally:
        E.DEFAULT_OVERRIDES[:] = saved


def py_cmp(x, sa, y, sb):
    if abs(sa - sb) > 100000:
        if x == 0 or y == 0 or (x < 0) != (y < 0):
            return (x > y) - (x < y)
        bigger_a = sa < sb
        r = 1 if bigger_a else -1
        return r if x > 0 else -r
    M = max(sa, sb)
    xs, ys = x * 10 ** (M - sa), y * 10 ** (M - sb)
    return (xs > ys) - (xs < ys)


def native_line(t, mdl):
    x = mdl['X'] if t['sx'] >= 0 else -mdl['X']
    y = mdl['Y'] if t['sy'] >= 0 else -mdl['Y']
    s0 = mdl['s0']
    return 'cmp\t%s\t%s\t%s' % (t['fn'], H.dec_str(x, s0 + t['ga']), H.dec_str(y, s0 + t['gb'])), x, s0 + t['ga'], y, s0 + t['gb']


def expected_out(fn, x, sa, y, sb):
    c = py_cmp(x, sa, y, sb)
    if FUNCS[fn][2] == 'bool':
        return 'true' if c == 0 else 'false'
    return {-1: 'Less', 0: 'Equal', 1: 'Greater'}[c]


def confirm(v):
    t, mdl = v['task'], v['model']
    if not mdl:
        return False, 'no model'
    if t.get('kind') == 'bits_bound':
        # witness of the same class: a = 10^s has exactly floor(log2 10^s)+1 bits, b = 1: equal values 10^s@0 and 1@-s
        s = t['scales'][mdl['scale_index']]
        if s > 200000:
            return False, 'scale too large to materialise natively'
        outs = []
        for fn, exp in (('eq', 'true'), ('cmp', 'Equal')):
            for (p, q) in (((10 ** s, 0), (1, -s)), ((1, -s), (10 ** s, 0))):
                o = H.replay_lines(['cmp\t%s\t%s\t%s' % (fn, H.dec_str(*p), H.dec_str(*q))])[0]
                outs.append((fn, o, exp))
        bad = [x for x in outs if x[1] != x[2]]
        return bool(bad), 'scale %d: %s' % (s, outs)
    line, x, sa, y, sb = native_line(t, mdl)
    outs = [H.replay_lines([line], prof)[0] for prof in ('release', 'debug')]
    exp = expected_out(t['fn'], x, sa, y, sb)
    bad = [o for o in outs if o != exp]
    return bool(bad), 'release=%s debug=%s expected=%s' % (outs[0], outs[1], exp)


def known_match(v, findings):
    for f in findings:
        if f.get('region') == 'u64 overflow of tmp + carry in the allocation-free equality loop' and v['kind'] == 'panic' and 'overflow' in v['detail']:
            return f
    return None


def validate(prog, rng, n, rep=None):
    cases = []
    for i in range(n):
        fn = rng.choice(list(FUNCS))
        g = rng.choice([0, 1, 2, 5, 9, 10, 18, 19, 20, 21, 25, 40])
        base = rng.choice([rng.randint(1, 2 ** rng.choice([8, 31, 32, 33, 63, 64, 65, 96, 127, 128, 129])), 2 ** 64 // 10 ** rng.randint(1, 19) + rng.choice([-1, 0, 1])])
        kind = rng.choice(['equal', 'ulp', 'rand'])
        if kind == 'equal':
            x, y = base * 10 ** g, base
        elif kind == 'ulp':
            x, y = base * 10 ** g + rng.choice([1, -1]), base
        else:
            x, y = rng.randint(0, 2 ** 100), base
        sgn = rng.choice([1, 1, -1])
        x, y = x * sgn, y * rng.choice([sgn, sgn, -sgn])
        if x + 10 ** g * 0 and abs(x) < 2 ** 160 and abs(y) < 2 ** 160:
            cases.append((fn, x, g, y, 0) if rng.random() < 0.5 else (fn, y, 0, x, g))
    outs = H.replay_lines(['cmp\t%s\t%s\t%s' % (fn, H.dec_str(x, sa), H.dec_str(y, sb)) for fn, x, sa, y, sb in cases])
    mism = []
    S.WORD_BOUND[0] = 8
    S.DIGIT_BOUND[0] = 80
    for (fn, x, sa, y, sb), nat in zip(cases, outs):
        if rep is not None and nat != expected_out(fn, x, sa, y, sb):
            H.probe_violation(rep, PROP, 'native %s(%d@%d, %d@%d) = %s, numeric answer %s' % (fn, x, sa, y, sb, nat, expected_out(fn, x, sa, y, sb)), {'fn': fn, 'probe': True}, {'x': x, 'sa': sa, 'y': y, 'sb': sb}, nat)
            continue
        m = E.Machine(prog, (), [], E.Stats(), loop_bound=3000)
        try:
            r = call_cmp(m, fn, x, sa, y, sb)
            mine = ('true' if r else 'false') if isinstance(r, bool) else (r if r == 'None' else r.variant)
        except E.Panic as p:
            mine = 'PANIC'
        except E.PathEnd as e:
            mine = 'ENGINE:%s' % e
        if mine != nat and not (mine == 'PANIC' and nat.startswith('PANIC')):
            mism.append({'case': [fn, x, sa, y, sb], 'mirsym': mine, 'native': nat})
    return len(cases), mism


def main(tier):
    rep = H.Report(PROP, tier)
    prog = H.get_program()
    rng = H.rng(PROP)
    W = 3 if tier == 'quick' else 4
    gaps = list(range(0, 26)) + [30, 38, 39, 45] if tier == 'quick' else list(range(0, 31)) + [38, 39, 45]
    tasks = []
    fns = list(FUNCS)
    i = 0
    for g in gaps:
        for (ga, gb) in ((g, 0), (0, g)) if g else ((0, 0),):
            for wx in range(0, W + 1):
                for wy in range(0, W + 1):
                    # both main entry points on every class; the other spellings round-robin
                    for fn in ('eq', 'cmp', fns[2 + (i % 5)]):
                        i += 1
                        signs = [(1, 1), (-1, -1)] if (wx and wy) else [(1, 1)]
                        if wx and wy and fn in ('eq', 'cmp') and g in (0, 1, 19, 20):
                            signs += [(1, -1), (-1, 1)]
                        for sx, sy in signs:
                            tasks.append({'fn': fn, 'ga': ga, 'gb': gb, 'wx': wx, 'wy': wy, 'sx': sx, 'sy': sy})
    # beyond the u128 fast path (ordering only: digit-count and digit-wise comparison), a few gaps, every entry point of cmp
    if tier == 'quick':
        i5 = 0
        for g in (1, 19, 20, 3):
            for (ga, gb) in ((g, 0), (0, g)):
                for (wx, wy) in ((5, 5), (5, 4), (4, 5)):
                    i5 += 1
                    if g == 3 and (wx, wy) != (5, 5):
                        continue
                    fn = ('cmp', 'ref_cmp', 'partial_cmp', 'ref_partial_cmp')[i5 % 4]
                    sx = 1 if i5 % 3 else -1
                    tasks.append({'fn': fn, 'ga': ga, 'gb': gb, 'wx': wx, 'wy': wy, 'sx': sx, 'sy': sx})
    # large scale differences at the narrowing-cast boundaries (a u8/u16/u32 cast of the difference would alias them to small
    # ones); operands of one or two words can never be equal there, the ordering must follow the magnitudes
    for g in sorted(set([46, 64, 100, 255, 256, 257, 258, 265, 275, 276, 300, 511, 512, 513, 531, 1000, 65535, 65536, 65537, 65555] + ([2 ** 20, 2 ** 32, 2 ** 32 + 1, 2 ** 32 + 19] if tier == 'thorough' else []))):
        for (ga, gb) in ((g, 0), (0, g)):
            for fn in ('eq', 'cmp', 'ref_cmp', 'ref_eq_ref'):
                for (wx, wy) in ((1, 1), (2, 1), (1, 2)):
                    for (sx, sy) in ((1, 1), (-1, -1)):
                        tasks.append({'fn': fn, 'ga': ga, 'gb': gb, 'wx': wx, 'wy': wy, 'sx': sx, 'sy': sy})
    # scale differences that do not fit u64 / i64
    for fn in ('eq', 'cmp', 'ref_cmp', 'ref_eq_ref'):
        for (sa, sb) in [(2 ** 63 - 1, -2 ** 63), (-2 ** 63, 2 ** 63 - 1), (2 ** 63 - 1, -1), (-2, 2 ** 63 - 1), (2 ** 62, -2 ** 62)]:
            for (wx, wy) in [(1, 1), (0, 1), (1, 0), (2, 1)]:
                for sx, sy in [(1, 1), (-1, -1), (1, -1)]:
                    tasks.append({'fn': fn, 'ga': sa, 'gb': sb, 'wx': wx, 'wy': wy, 'sx': sx, 'sy': sy, 's0': 0})
    tasks.sort(key=lambda t: -(t['wx'] * t['wy']))
    # the bit-length early-out for every scale difference up to SB (its float estimate of log2(10^s) is closed code per s)
    SB = 6000 if tier == 'quick' else 60000
    sc_all = list(range(0, SB + 1)) + [2 ** j + d for j in range(13, 41) for d in (-1, 0, 1) if 2 ** j + d > SB]
    for i in range(0, len(sc_all), 200):
        tasks.append({'kind': 'bits_bound', 'scales': sc_all[i:i + 200], 'wx': 0, 'wy': 0})
    rep.required_labels = {'eq:True', 'eq:False', 'cmp:Less', 'cmp:Equal', 'cmp:Greater', 'bit-length early-out'}
    rep.bounds = {'magnitudes': '< 2^%d (every combination of 32-bit word counts 0..%d, words symbolic); quick adds ordering at 4-5 words (beyond u128) for gaps 1,3,19,20' % (32 * W, W), 'gaps': gaps, 'large_gaps_for_1-2_word_operands': '46, 64, 100, 255..258, 265, 275, 276, 300, 511..513, 531, 1000, 65535..65537, 65555 (thorough: + 2^20, 2^32..)',
                  'scale_difference_overflow_cases': 'i64 extremes, concrete', 'bit_length_early_out': 'every scale difference 0..%d and 2^j-1, 2^j, 2^j+1 up to 2^40; bit lengths symbolic below 2^48' % SB, 's0': 'symbolic |s0| <= 2^60', 'entry points': list(FUNCS)}
    rep.assumptions = ['BigUint::bits / iter_u32_digits / to_radix_le / comparison contracts of num-bigint', 'count_decimal_digits_uint substituted by its contract (C18)',
                       'lt/le/gt/ge/max/min/sort are core default methods determined by cmp/partial_cmp']
    rep.outside = ['magnitudes >= 2^%d' % (32 * W), 'gaps not listed']
    sys.stderr.write('[C02] %d tasks\n' % len(tasks))
    rep.validated, rep.validation_mismatches = validate(prog, rng, 300 if tier == 'quick' else 3000, rep)
    results = H.run_parallel(tasks, worker, progress=500)
    rep.add(results)
    findings = H.load_known_findings(PROP)
    for r in results:
        for v in r['violations']:
            ok, out = confirm(v)
            v['native'] = out
            if ok:
                f = known_match(v, findings)
                if f:
                    if not any(k[0] is f for k in rep.known_hits):
                        rep.known_hits.append((f, v))
                    continue
                v['replay_file'] = H.write_replay_file(PROP, v)
                rep.confirmed.append(v)
            else:
                rep.unconfirmed.append(v)
    return rep.finish()


def replay(path):
    import json
    v = json.load(open(path))
    ok, out = confirm(v)
    print('replay %s -> native %s ; violation reproduced: %s' % (path, out, ok))
    return 1 if ok else 0
