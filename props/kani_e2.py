"""E2: an independent engine (Kani 0.68 / CBMC, bit-precise over the compiled code) on the two public rounding kernels
RoundingMode::round_pair and RoundingMode::round_u32, against a textbook reference written in Rust inside the harness
crate /verif/kani_e2 (path dependency on /repo: rebuilt from the current working tree on every run).

Used by C06's thorough tier as a cross-check of the E1 (MIR -> z3) result on the same kernels: a disagreement between the
two engines is never silent.  If a Kani proof fails, the counterexample is looked for natively (round_pair has 4200 inputs
in all; round_u32 is probed around every digit position) so that the report carries a replayable witness.
"""
import os
import re
import shutil
import subprocess
import time

from mirsym import harness as H

CRATE = os.path.join(os.path.dirname(os.path.dirname(os.path.abspath(__file__))), 'kani_e2')
WITNESS = 'witness_reaches_assertion'
MODES = ['Up', 'Down', 'Ceiling', 'Floor', 'HalfUp', 'HalfDown', 'HalfEven']


def spec_up(mode, negative, lhs, rhs, rest_zero):
    if rhs == 0 and rest_zero:
        return False
    gt_half = rhs > 5 or (rhs == 5 and not rest_zero)
    eq_half = rhs == 5 and rest_zero
    return {'Up': True, 'Down': False, 'Ceiling': not negative, 'Floor': negative, 'HalfUp': gt_half or eq_half,
            'HalfDown': gt_half, 'HalfEven': gt_half or (eq_half and lhs % 2 == 1)}[mode]


def native_witnesses(limit=4):
    """concrete inputs on which the natively compiled kernels differ from the textbook"""
    lines, exp = [], []
    for mode in MODES:
        for sign in ('Minus', 'NoSign', 'Plus'):
            for lhs in range(10):
                for rhs in range(10):
                    for tz in (True, False):
                        lines.append('round_pair\t%s\t%s\t%d\t%d\t%s' % (mode, sign, lhs, rhs, 'true' if tz else 'false'))
                        exp.append(str(lhs + 1 if spec_up(mode, sign == 'Minus', lhs, rhs, tz) else lhs))
    import random
    rng = random.Random(7)
    for mode in MODES:
        for sign in ('Minus', 'Plus'):
            for at in range(1, 10):
                pw = 10 ** at
                for value in [0, 5 * pw // 10, 15 * pw // 10, 25 * pw // 10, 99 * pw // 10 % (2 ** 32 // 20), pw - 1, pw + 1] + [rng.randrange(0, min(2 ** 32 - 1, (2 ** 32 // pw - 2) * pw)) for _ in range(12)]:
                    if value // pw >= (2 ** 32 - 1) // pw:
                        continue
                    for tz in (True, False):
                        top, low = divmod(value, pw)
                        rhs, rest = divmod(low, pw // 10)
                        up = spec_up(mode, sign == 'Minus', top % 10, rhs, rest == 0 and tz)
                        lines.append('round_u32\t%s\t%s\t%d\t%d\t%s' % (mode, sign, at, value, 'true' if tz else 'false'))
                        exp.append(str((top + (1 if up else 0)) * pw))
    outs = H.replay_lines(lines)
    bad = [(l, o, e) for l, o, e in zip(lines, outs, exp) if o != e]
    return len(lines), bad[:limit]


def check_line(line):
    """replay one kernel request natively and compare with the textbook"""
    f = line.split('\t')
    out = H.replay_lines([line])[0]
    if f[0] == 'round_pair':
        mode, sign, lhs, rhs, tz = f[1], f[2], int(f[3]), int(f[4]), f[5] == 'true'
        exp = lhs + 1 if spec_up(mode, sign == 'Minus', lhs, rhs, tz) else lhs
    else:
        mode, sign, at, value, tz = f[1], f[2], int(f[3]), int(f[4]), f[5] == 'true'
        pw = 10 ** at
        top, low = divmod(value, pw)
        rhs, rest = divmod(low, pw // 10)
        exp = (top + (1 if spec_up(mode, sign == 'Minus', top % 10, rhs, rest == 0 and tz) else 0)) * pw
    return out != str(exp), '%s (textbook %s)' % (out, exp)


def run(rep, prop, timeout_s=3000, jobs=11):
    """runs every harness of the E2 crate; fills rep.kani; reports disagreement as violation / inconclusive through rep"""
    info = {'engine': 'kani 0.68 / CBMC 6.11 (cadical)', 'crate': CRATE, 'harnesses': [], 'status': 'not run'}
    rep.kani.append(info)
    n_native, bad = native_witnesses()
    info['native_kernel_inputs_compared'] = n_native
    for (l, o, e) in bad:
        H.probe_violation(rep, prop, 'native %s gives %s, textbook %s' % (l.replace('\t', ' '), o, e), {'kind': 'kernel', 'line': l}, {'line': l}, o)
    if shutil.which('cargo-kani') is None and shutil.which('kani') is None:
        info['status'] = 'skipped: cargo-kani not installed (E2 is a cross-check, not the deciding engine)'
        return info
    scratch = os.environ.get('VERIF_SCRATCH', '/var/tmp/bigdecimal-verif')
    tdir = os.path.join(scratch, 'kani')
    os.makedirs(tdir, exist_ok=True)
    lock = os.path.join(CRATE, 'Cargo.lock')
    if os.path.exists('/repo/Cargo.lock') and not os.path.exists(lock):
        shutil.copy('/repo/Cargo.lock', lock)
    env = dict(os.environ, CARGO_NET_OFFLINE='true')
    t0 = time.time()
    try:
        p = subprocess.run(['cargo', 'kani', '-j', str(jobs), '--output-format', 'terse', '--target-dir', tdir], cwd=CRATE, env=env,
                           stdout=subprocess.PIPE, stderr=subprocess.STDOUT, timeout=timeout_s)
        out = p.stdout.decode(errors='replace')
    except subprocess.TimeoutExpired as e:
        info['status'] = 'timeout after %d s' % timeout_s
        rep.unconfirmed.append({'kind': 'e2-timeout', 'detail': 'Kani cross-check did not finish', 'task': {'kind': 'kani'}, 'model': None, 'native': ''})
        return info
    info['wall_s'] = round(time.time() - t0, 1)
    failed = set(re.findall(r'Verification failed for - (?:proofs::)?(\w+)', out))
    m = re.search(r'Complete - (\d+) successfully verified harnesses, (\d+) failures, (\d+) total', out)
    if not m:
        info['status'] = 'no summary line (build or tool error)'
        info['tail'] = out[-1500:]
        rep.unconfirmed.append({'kind': 'e2-error', 'detail': 'Kani produced no summary: ' + out[-300:], 'task': {'kind': 'kani'}, 'model': None, 'native': ''})
        return info
    ok, nf, total = int(m.group(1)), int(m.group(2)), int(m.group(3))
    info['harnesses'] = {'verified': ok, 'failed': sorted(failed), 'total': total}
    info['bounds'] = 'round_pair: every mode, sign, digit pair and flag; round_u32: every u32 value whose result fits u32, every mode, sign and flag, one harness per digit position 1..9 (unwind 6 with unwinding assertions for 10u32.pow)'
    if WITNESS not in failed:
        info['status'] = 'vacuity witness did not fail: harness broken'
        rep.unconfirmed.append({'kind': 'e2-vacuous', 'detail': 'the reachability witness harness did not fail', 'task': {'kind': 'kani'}, 'model': None, 'native': ''})
        return info
    real = failed - {WITNESS}
    if real:
        info['status'] = 'DISAGREES: failing proofs %s' % sorted(real)
        if not bad:
            rep.unconfirmed.append({'kind': 'e2-failure', 'detail': 'Kani proofs failed (%s) but no native witness was found among %d kernel inputs' % (sorted(real), n_native),
                                    'task': {'kind': 'kani'}, 'model': None, 'native': ''})
        return info
    info['status'] = 'agrees: %d proofs verified, witness harness fails as required' % ok
    return info
