"""C03 — Hash agrees with equality: equal decimals feed identical bytes to any Hasher."""
import sys
import z3

from mirsym import harness as H
from mirsym import engine as E
from mirsym import summaries as S
from mirsym.engine import Agg, Ref, is_sym
from . import common as C
from . import contracts as K

PROP = 'C03'


def hash_stream(m, x, s):
    rec = []
    m.call('<BigDecimal as std::hash::Hash>::hash::<H>', [Ref([C.dec(x, s)], 0), Ref([rec], 0)], ['&BigDecimal', '&mut H'], '()')
    return rec


def run_pair(L, i, j, S_lo, S_hi, zero=False):
    """two representations n*10^i @ s+i and n*10^j @ s+j of the same value (n has exactly L digits, or is zero)"""
    n, s = z3.Ints('n s')
    neg = z3.Bool('neg')

    def run(m):
        m.witness = {'n': n, 's': s, 'neg': neg}
        S.DIGIT_BOUND[0] = L + max(i, j) + 1
        if zero:
            m.assume(n == 0)
        else:
            m.assume(z3.And(n >= 10 ** (L - 1), n < 10 ** L))
        m.assume(z3.And(s >= S_lo, s <= S_hi))
        x = z3.If(neg, -n, n)
        a = hash_stream(m, x * 10 ** i, s + i)
        b = hash_stream(m, x * 10 ** j, s + j)
        m.labels.add('zero' if zero else 'nonzero')
        if [len(ch) for ch in a] != [len(ch) for ch in b]:
            return [('equal values make the same sequence of Hasher::write calls (chunk lengths %r vs %r)' % ([len(ch) for ch in a], [len(ch) for ch in b]), True)]
        a, b = [x for ch in a for x in ch], [x for ch in b for x in ch]
        diffs = [p != q for p, q in zip(a, b) if is_sym(p) or is_sym(q) or p != q]
        diffs = [d if not isinstance(d, bool) else z3.BoolVal(d) for d in diffs]
        return [('equal values feed identical bytes', z3.Or(diffs) if diffs else False)]
    return run


def worker(t):
    prog = H.get_program()
    S.BITS_MODE[:] = ['ladder', 192]        # exact bit-length facts (the pinned code of this property never asks for bits() of a symbolic integer; rewrites might)
    saved = list(E.DEFAULT_OVERRIDES)
    try:
        # digit counting (not used by the pinned Hash, but by plausible rewrites of it) by its contract, as in C06/C07/C08
        E.DEFAULT_OVERRIDES[:] = K.DIGIT_CONTRACTS
        K.DIGITS_MAX[0] = t['L'] + max(t['i'], t['j']) + 3
        return H.explore_task(prog, run_pair(t['L'], t['i'], t['j'], t['slo'], t['shi'], t.get('zero', False)), task=t, loop_bound=3000,
                              timeout_ms=60000, deadline_s=900)
    finally:
        E.DEFAULT_OVERRIDES[:] = saved


def confirm(v):
    t, mdl = v['task'], v['model']
    if not mdl:
        return False, 'no model'
    x = -mdl['n'] if mdl['neg'] else mdl['n']
    la = 'hash\t%s' % H.dec_str(x * 10 ** t['i'], mdl['s'] + t['i'])
    lb = 'hash\t%s' % H.dec_str(x * 10 ** t['j'], mdl['s'] + t['j'])
    a, b = H.replay_lines([la, lb])
    return a != b, '%s | %s' % (a, b)


def validate(prog, rng, n, rep=None):
    if rep is not None:
        pairs = []
        for k in range(n):
            x = rng.choice([0, 1, -1, 7, 12, -450, 10 ** rng.randint(0, 12), rng.randint(-10 ** 9, 10 ** 9)])
            s, i, j = rng.randint(-40, 40), rng.randint(0, 40), rng.randint(0, 40)
            pairs.append((x, s, i, j))
        outs = H.replay_lines([ln for (x, s, i, j) in pairs for ln in ('hash\t%s' % H.dec_str(x * 10 ** i, s + i), 'hash\t%s' % H.dec_str(x * 10 ** j, s + j))])
        for k, (x, s, i, j) in enumerate(pairs):
            if outs[2 * k] != outs[2 * k + 1]:
                H.probe_violation(rep, PROP, 'native hash streams of the equal values %d@%d and %d@%d differ' % (x * 10 ** i, s + i, x * 10 ** j, s + j), {'L': 0, 'i': i, 'j': j, 'slo': s, 'shi': s, 'probe': True}, {'n': abs(x), 's': s, 'neg': x < 0}, outs[2 * k] + ' | ' + outs[2 * k + 1])
    cases = []
    for k in range(n):
        x = rng.choice([0, 1, -1, 10, 100, 12300, -4500, rng.randint(-10 ** 12, 10 ** 12), 10 ** rng.randint(0, 15)])
        cases.append((x, rng.randint(-12, 14)))
    outs = H.replay_lines(['hash\t%s' % H.dec_str(x, s) for x, s in cases])
    mism = []
    S.DIGIT_BOUND[0] = 60
    for (x, s), nat in zip(cases, outs):
        m = E.Machine(prog, (), [], E.Stats(), loop_bound=3000)
        try:
            rec = hash_stream(m, x, s)
            mine = '|'.join(','.join(str(bb) for bb in w) for w in rec)
        except E.PathEnd as e:
            mine = 'ENGINE:%s' % e
        if mine != nat:
            mism.append({'case': [x, s], 'mirsym': mine, 'native': nat})
    return len(cases), mism


def main(tier):
    rep = H.Report(PROP, tier)
    prog = H.get_program()
    rng = H.rng(PROP)
    D, T, SS = (8, 6, 12) if tier == 'quick' else (10, 8, 16)
    tasks = []
    for L in range(1, D + 1):
        for i in range(0, T + 1):
            for j in range(i + 1, T + 1):
                if tier == 'quick' and L > 3 and (i + j + L) % 3:
                    continue
                for (lo, hi) in ((-SS, -1), (0, SS)):
                    tasks.append({'L': L, 'i': i, 'j': j, 'slo': lo - i if lo < 0 else lo, 'shi': hi})
    for i in range(0, T + 1):
        for j in range(i + 1, T + 1):
            tasks.append({'L': 1, 'i': i, 'j': j, 'slo': -SS, 'shi': SS, 'zero': True})
    # long runs of trailing zeros: the unscaled integer crosses the one/two/three 64-bit word boundaries (2^64 ~ 10^19.3,
    # 2^128 ~ 10^38.5) while the significant part stays short
    for L in (1, 2) if tier == 'quick' else (1, 2, 3, 5, 8):
        for i in (0,) if tier == 'quick' else (0, 1):
            for j in (19, 20, 21, 38, 39, 40) if tier == 'quick' else range(15, 45):
                for (lo, hi) in ((-j - 3, -1), (0, 6)):
                    tasks.append({'L': L, 'i': i, 'j': j, 'slo': lo, 'shi': hi})
    # negative scales around round thresholds a "do not materialise that many zeros" shortcut might use: the two
    # representations straddle the threshold (i = 0, j = 2..3, base scale within +-3 of it)
    for T0 in (16, 24, 32, 48, 64, 100, 128, 256, 512, 1000, 1024, 2048, 4096) + ((10000, 65536) if tier == 'thorough' else ()):
        for j in (2, 3):
            tasks.append({'L': 1, 'i': 0, 'j': j, 'slo': -T0 - 3 - j, 'shi': -T0 + 3})
            tasks.append({'L': 2, 'i': 0, 'j': j, 'slo': -T0 - 3 - j, 'shi': -T0 + 3, 'zero': False})
    rep.required_labels = {'zero', 'nonzero'}
    rep.bounds = {'significant_digits_L': '1..%d (all integers of each length, symbolic)' % D, 'extra_trailing_zeros_i,j': '0..%d, plus (i = 0, j in 19..21 and 38..40 | i in 0..1, j in 15..44) for short significant parts (word-count boundaries)' % T, 'base scale': '-%d..%d symbolic, plus windows of +-3 around -16, -24, -32, -48, -64, -100, -128, -256, -512, -1000, -1024, -2048, -4096 (thorough: -10000, -65536)' % (SS, SS), 'sign': 'symbolic'}
    rep.assumptions = ['String::hash feeds the UTF-8 bytes followed by 0xff to the Hasher (std contract); any Hasher is a function of that byte stream',
                       'BigInt::to_str_radix renders sign and decimal digits (num-bigint contract)']
    rep.outside = ['|scale| beyond the bound (the hash materialises |scale| zeros)', 'more than D significant digits']
    sys.stderr.write('[C03] %d tasks\n' % len(tasks))
    rep.validated, rep.validation_mismatches = validate(prog, rng, 200 if tier == 'quick' else 2000, rep)
    results = H.run_parallel(tasks, worker, progress=200)
    rep.add(results)
    for r in results:
        for v in r['violations']:
            ok, out = confirm(v)
            v['native'] = out
            if ok:
                v['replay_file'] = H.write_replay_file(PROP, v)
                rep.confirmed.append(v)
            else:
                rep.unconfirmed.append(v)
    return rep.finish()


def replay(path):
    import json
    v = json.load(open(path))
    ok, out = confirm(v)
    print('replay %s -> native %s ; violation reproduced: %s' % (path, out, ok))
    return 1 if ok else 0
