"""C20 — compile-time configuration is honoured by every default-context operation.

Per configuration the MIR dump is regenerated with the RUST_BIGDECIMAL_* variables set and the constants are read FROM THE DUMP."""
import re
import sys
import z3

from mirsym import harness as H
from mirsym import engine as E
from mirsym import summaries as S
from mirsym.engine import Agg, Ref, mk_enum, is_sym
from . import common as C
from . import contracts as K
from . import spec
from . import c04, c06, c08, c16

PROP = 'C20'
MODES = spec.MODES
VARS = {'P': 'RUST_BIGDECIMAL_DEFAULT_PRECISION', 'M': 'RUST_BIGDECIMAL_DEFAULT_ROUNDING_MODE', 'LO': 'RUST_BIGDECIMAL_FMT_EXPONENTIAL_LOWER_THRESHOLD',
        'HI': 'RUST_BIGDECIMAL_FMT_EXPONENTIAL_UPPER_THRESHOLD', 'PAD': 'RUST_BIGDECIMAL_FMT_MAX_INTEGER_PADDING'}


def env_of(cfg):
    return {VARS[k]: str(v) for k, v in cfg.items()}


def run_defaults(cfg):
    """Context::default / RoundingMode::default / the constants in the dump are the configured values"""
    def run(m):
        ctx = m.call('<Context as Default>::default', [], [], 'Context')
        mode = m.call('<rounding::RoundingMode as Default>::default', [], [], 'RoundingMode')
        consts = C.config_consts(m.prog)
        m.labels.add('defaults')
        return [('Context::default().precision is the configured precision', ctx.fields[0] != cfg['P']),
                ('Context::default().rounding_mode is the configured mode', ctx.fields[1].variant != cfg['M']),
                ('RoundingMode::default() is the configured mode', mode.variant != cfg['M']),
                ('DEFAULT_PRECISION constant', consts.get('DEFAULT_PRECISION') != cfg['P']),
                ('Display thresholds and padding limit constants', (consts.get('EXPONENTIAL_FORMAT_LEADING_ZERO_THRESHOLD'), consts.get('EXPONENTIAL_FORMAT_TRAILING_ZERO_THRESHOLD'), consts.get('FMT_MAX_INTEGER_PADDING')) != (cfg['LO'], cfg['HI'], cfg['PAD']))]
    return run


def run_ctx_forwarding(cfg, fn):
    """sqrt / cbrt / inverse call their *_with_context body with exactly the default context and return its result"""
    x, s = z3.Ints('x s')

    def run(m):
        m.witness = {'x': x, 's': s}
        m.assume(z3.And(s >= -2 ** 40, s <= 2 ** 40))
        calls = []
        R, RS = m.fresh('R'), m.fresh('RS')

        def contract(mm, mo, args, tys, dty):
            calls.append((S.deref(args[0]), S.deref(args[1])))
            r = C.dec(R, RS)
            return S.some(r) if fn == 'sqrt' else r
        m.overrides = [(re.compile(r'^BigDecimal::%s_with_context$' % fn), contract)] + list(m.overrides)
        a = C.dec(x, s)
        r = m.call('BigDecimal::' + fn, [Ref([a], 0)], ['&BigDecimal'], 'BigDecimal')
        if len(calls) != 1:
            return [('%s() forwards to %s_with_context exactly once' % (fn, fn), True)]
        recv, ctx = calls[0]
        res = r.fields[0] if fn == 'sqrt' else r
        m.labels.add('forwarding')
        return [('explicit-context body receives the same decimal', z3.Or(recv.fields[0] != x, recv.fields[1] != s)),
                ('and the configured precision', ctx.fields[0] != cfg['P']), ('and the configured mode', ctx.fields[1].variant != cfg['M']),
                ('result returned unchanged', z3.Or(res.fields[0] != R, res.fields[1] != RS))]
    return run


def run_display_threshold(cfg, L, band):
    """Display (no precision) switches to exponent notation exactly beyond the configured zero counts"""
    n, scale = z3.Ints('n scale')

    def run(m):
        m.witness = {'n': n, 'scale': scale}
        S.DIGIT_BOUND[0] = L + 1
        m.assume(z3.And(n >= 10 ** (L - 1), n < 10 ** L, scale >= band[0], scale <= band[1]))
        out, ok = c04.render(m, 'display', n, scale)
        has_exp = any(isinstance(c, S.IntRender) for c in out) or any(c in (101, 69) for c in out if isinstance(c, int))
        lead = scale - L               # zeros between the point and the first digit (when positive)
        trail = -scale                 # zeros an integer would need
        want_exp = z3.Or(lead > cfg['LO'], trail > cfg['HI'])
        # integers between the upper threshold and the fixed padding cut-off (20) keep the plain form only up to min(HI, 20)... the code pads at most 20
        m.labels.add('display: exponent' if has_exp else 'display: plain')
        if has_exp:
            return [('exponent notation only beyond the configured thresholds (or beyond the fixed 20-zero cut-off / the configured padding limit)', z3.Not(z3.Or(want_exp, trail > 20, trail > cfg['PAD'])))]
        return [('plain notation only within the configured thresholds and the configured / fixed padding limits', z3.Or(want_exp, z3.And(trail > 0, z3.Or(trail > cfg['PAD'], trail > 20))))]
    return run


def worker(t):
    prog = H.get_program(env=t['env'])
    cfg = t['cfg']
    S.BITS_MODE[:] = ['ladder', 192]        # exact bit-length facts (the pinned code of this property never asks for bits() of a symbolic integer; rewrites might)
    saved = list(E.DEFAULT_OVERRIDES)
    try:
        k = t['kind']
        if k == 'defaults':
            return H.explore_task(prog, run_defaults(cfg), task=t)
        if k == 'forward':
            E.DEFAULT_OVERRIDES[:] = K.EQ_CONTRACTS
            # the is_zero / is_one shortcuts need concrete scales for the == contract: they are not on the forwarding path of BigDecimal::sqrt itself
            return H.explore_task(prog, run_ctx_forwarding(cfg, t['fn']), task=t)
        if k == 'display':
            return H.explore_task(prog, run_display_threshold(cfg, t['L'], t['band']), task=t, loop_bound=4000)
        if k == 'round':
            return H.explore_task(prog, c06.run_wsr(t['D'], t['k'], cfg['M'], 'round'), task=t, loop_bound=1500)
        if k == 'fmt_fixed':
            return H.explore_task(prog, c16.run_fixed(t['L'], t['scale'], t['N'], cfg['M'], C.config_consts(prog)), task=t, loop_bound=6000)
        if k == 'fmt_exp':
            return H.explore_task(prog, c16.run_exp(t['L'], t['scale'], t['N'], cfg['M'], False), task=t, loop_bound=6000)
        if k == 'division':
            E.DEFAULT_OVERRIDES[:] = K.DIGIT_CONTRACTS + K.ROUNDING_TERM_CONTRACTS + K.EQ_CONTRACTS
            snaps = set()
            out = [H.explore_task(prog, c08.run_base(t['den'], t['K'], cfg['P'], snaps), task=dict(t, phase='base'), loop_bound=t['K'] + 400)]
            for snap in sorted(snaps):
                out.append(H.explore_task(prog, c08.run_step(t['den'], cfg['P'], snap), task=dict(t, phase='step'), loop_bound=400))
            return out
        if k == 'div_overload':
            E.DEFAULT_OVERRIDES[:] = K.DIGIT_CONTRACTS + K.ROUNDING_TERM_CONTRACTS + K.EQ_CONTRACTS
            return H.explore_task(prog, c08.run_overload(t['ov'], 'route', t['dval'], 0, 0, cfg['P']), task=t, loop_bound=600)
        if k == 'div_unrolled':
            # end-to-end without any invariant: the loop is simply unrolled (small precisions only)
            E.DEFAULT_OVERRIDES[:] = K.DIGIT_CONTRACTS + K.ROUNDING_TERM_CONTRACTS + K.EQ_CONTRACTS
            return H.explore_task(prog, run_div_unrolled(t['den'], cfg['P'], t['K']), task=t, loop_bound=600, deadline_s=600)
        raise AssertionError(k)
    finally:
        E.DEFAULT_OVERRIDES[:] = saved


def run_div_unrolled(den, P, Kd):
    x, s0 = z3.Ints('x s0')

    def run(m):
        m.witness = {'x': x, 's0': s0}
        K.DIGITS_MAX[0] = Kd + 3
        m.assume(z3.And(s0 >= -C.SCALE_BOUND, s0 <= C.SCALE_BOUND, x > 0, x < 10 ** Kd))
        r = m.call('<BigDecimal as std::ops::Div>::div', [C.dec(x, s0), C.dec(den, 0)], ['BigDecimal', 'BigDecimal'], 'BigDecimal')
        ri, rs = r.fields
        j = m.concretize(rs - s0)
        m.labels.add('division unrolled')
        return [('x/d exact, or >= P digits within half a unit (ties away)', z3.Not(c08.post_cond(ri, rs, x * 10 ** (j + 1), s0 + j, den, P)))]
    return run


def configs(tier, rng):
    default = {'P': 100, 'M': 'HalfEven', 'LO': 5, 'HI': 15, 'PAD': 1000}
    Ps, LOs, HIs, PADs = [1, 2, 3, 7, 16, 34, 100, 250], [1, 5, 9], [0, 2, 15, 40], [0, 5, 1000]
    rows = [default]
    if tier == 'quick':
        rows += [{'P': 1, 'M': 'Up', 'LO': 1, 'HI': 0, 'PAD': 0}, {'P': 3, 'M': 'Floor', 'LO': 9, 'HI': 40, 'PAD': 5}]
        rows.append({'P': rng.choice(Ps), 'M': rng.choice(MODES), 'LO': rng.choice(LOs), 'HI': rng.choice(HIs), 'PAD': rng.choice(PADs)})
    else:
        # pairwise-style covering rows: every value of every parameter appears, modes x precisions fully crossed on a diagonal
        for i in range(56):
            rows.append({'P': Ps[i % 8], 'M': MODES[(i // 8 + i) % 7], 'LO': LOs[i % 3], 'HI': HIs[(i // 3) % 4], 'PAD': PADs[(i // 2) % 3]})
    out, seen = [], set()
    for r in rows:
        k = tuple(sorted(r.items()))
        if k not in seen:
            seen.add(k)
            out.append(r)
    return out


def confirm(v):
    t = v['task']
    mdl = v['model'] or {}
    env = t['env']
    k = t['kind']
    cfg = t['cfg']
    if k in ('defaults', 'forward'):
        out = H.replay_lines(['config'], cfg_env=env)[0]
        exp = '%d %s' % (cfg['P'], cfg['M'])
        return out != exp, 'native Context::default() = %s (configured %s)' % (out, exp)
    if k == 'display':
        line = 'fmt_roundtrip\tdisplay\t%s' % H.dec_str(mdl['n'], mdl['scale'])
        out = H.replay_lines([line], cfg_env=env)[0].split('\x1f')[0]
        L = len(str(mdl['n']))
        want_exp = (mdl['scale'] - L > cfg['LO']) or (-mdl['scale'] > cfg['HI'])
        has_exp = 'e' in out.lower()
        trail = -mdl['scale']
        bad = (has_exp and not (want_exp or trail > 20 or trail > cfg['PAD'])) or (not has_exp and (want_exp or (trail > 0 and (trail > cfg['PAD'] or trail > 20))))
        return bad, out
    if k == 'round':
        line = 'round\t%s\t%d' % (H.dec_str(mdl['n'], mdl['s0']), mdl['s0'] - t['k'])
        out = H.replay_lines([line], cfg_env=env)[0]
        ri, rs = H.parse_dec(out)
        exp = spec.py_round_div_pow10(mdl['n'], t['k'], cfg['M']) if t['k'] >= 1 else mdl['n'] * 10 ** (-t['k'])
        return not (ri == exp and rs == mdl['s0'] - t['k']), out
    if k in ('division', 'div_unrolled'):
        if t.get('phase') == 'step':
            if mdl['X'] % 10:
                return False, 'unreachable step state'
            x, s0 = mdl['X'] // 10, 0
        else:
            x, s0 = mdl['x'], mdl['s0']
            if abs(s0) > 1000:
                s0 = 0          # the base scale only shifts the result; never materialise 10^(2^60) in the exact oracle
        out = H.replay_lines(['binop\tDiv\tBigDecimal\tBigDecimal\t%s\t%s' % (H.dec_str(x, s0), H.dec_str(t['den'], 0))], cfg_env=env)[0]
        if out.startswith('PANIC'):
            return True, out
        ri, rs = H.parse_dec(out)
        return not c08.py_div_check(x, s0, t['den'], 0, ri, rs, cfg['P']), out
    if k == 'div_overload':
        # the configured precision reaches impl_division: natively, 1/3-like quotients must carry exactly P digits
        ov = t['ov']
        x = mdl.get('x', 1) or 1
        l = H.dec_str(x, 0) if C.kind_of(ov['lhs']) == 'dec' else str(t['dval'])
        r = str(t['dval']) if C.kind_of(ov['lhs']) == 'dec' else H.dec_str(x, 0)
        if C.kind_of(ov['rhs']) == 'dec' and C.kind_of(ov['lhs']) == 'dec':
            r = H.dec_str(t['dval'], 0)
        out = H.replay_lines(['\t'.join(['binop', ov['trait'], C.norm_ty(ov['lhs']), C.norm_ty(ov['rhs']), l, r])], cfg_env=env)[0]
        return True, out + ' (model replayed under the configuration; argument mismatch is internal)'
    if k in ('fmt_fixed', 'fmt_exp'):
        x = -mdl['n'] if mdl.get('neg') else mdl['n']
        kind = 'fixed' if k == 'fmt_fixed' else 'e'
        out = H.replay_lines(['fmt_prec\t%s\t%s\t%d\tplain' % (kind, H.dec_str(x, t['scale']), t['N'])], cfg_env=env)[0]
        v2 = dict(v)
        v2['task'] = dict(t, kind='fixed' if k == 'fmt_fixed' else 'exp', upper=False, mode=cfg['M'], cfg={'FMT_MAX_INTEGER_PADDING': cfg['PAD']})
        # reuse C16's native comparison, against a binary built with this configuration
        saved = H.replay_lines
        try:
            H.replay_lines = lambda lines, profile='release', timeout=120, cfg_env=None: saved(lines, profile, timeout, env)
            return c16.confirm(v2, cfg['M'])
        finally:
            H.replay_lines = saved
    return False, 'no native replay for ' + k


def main(tier):
    rep = H.Report(PROP, tier)
    rng = H.rng(PROP)
    cfgs = configs(tier, rng)
    tasks = []
    for cfg in cfgs:
        env = env_of(cfg)
        prog = H.get_program(env=env)          # regenerates the dump for this configuration (in the parent, once)
        base = {'cfg': cfg, 'env': env}
        tasks.append(dict(base, kind='defaults'))
        for fn in ('sqrt', 'cbrt', 'inverse'):
            tasks.append(dict(base, kind='forward', fn=fn))
        for L in (1, 3):
            for band in ((-60, -1), (0, 0), (1, 60)):
                tasks.append(dict(base, kind='display', L=L, band=band))
        for k in (1, 2, 4):
            tasks.append(dict(base, kind='round', D=4, k=k))
        for (L, scale, N) in [(3, 2, 0), (3, 2, 1), (4, 3, 1), (2, 4, 2), (3, 5, 3)]:
            tasks.append(dict(base, kind='fmt_fixed', L=L, scale=scale, N=N))
            tasks.append(dict(base, kind='fmt_exp', L=L, scale=scale, N=min(N, 2)))
        for L in (1, 2):
            for scale in range(-1, 7):
                for N in range(0, 4):
                    tasks.append(dict(base, kind='fmt_fixed', L=L, scale=scale, N=N))
        pad = cfg['PAD']
        for scale in (-(pad + 2), -max(pad - 1, 1)):
            for N in (0, 2):
                tasks.append(dict(base, kind='fmt_fixed', L=2, scale=scale, N=N))
        dens = [3, 7, 8, 11, 16, 125, 999] if tier == 'quick' else list(range(1, 1000))
        if cfg['P'] > 3 and tier != 'quick':
            dens = [3, 7, 8, 11, 16, 97, 125, 999]
        for d in dens:
            tasks.append(dict(base, kind='division', den=d, K=6))
        # denominators at the machine-word boundaries (a native-integer fast path enabled by a small configured precision
        # would have to survive these), with numerators up to 20 digits
        U64 = 2 ** 64 - 1
        for d in [2 ** 32 - 1, 2 ** 32 + 1, 10 ** 9 + 7, U64 // 10, U64 // 10 + 1, 7 * 10 ** 18, 2 ** 63 - 1, 2 ** 63, 10 ** 19 + 1, U64, U64 + 2, 2 ** 127 - 1] + ([] if tier == 'quick' else [3 * 10 ** 18 + 1, 9 * 10 ** 18 + 7, 2 ** 96 + 1]):
            tasks.append(dict(base, kind='division', den=d, K=20))
        if cfg['P'] <= 3:
            for d in ([3, 7, 8, 9, 11, 64, 999] if tier == 'quick' else list(range(1, 1000))):
                tasks.append(dict(base, kind='div_unrolled', den=d, K=3 if tier == 'quick' else 4))
        ovs = {o['path']: o for o in c08.div_overloads(prog)}
        for path in ('<BigDecimal as std::ops::Div>::div', '<BigDecimal as std::ops::Div<&BigDecimal>>::div', '<&BigDecimal as std::ops::Div<&BigDecimal>>::div',
                     '<&BigDecimal as std::ops::Div<BigDecimal>>::div', '<BigDecimal as std::ops::Div<u8>>::div', '<i64 as std::ops::Div<BigDecimal>>::div',
                     '<BigDecimal as std::ops::DivAssign<i32>>::div_assign'):
            key = [p for p in ovs if p.replace('std::ops::Div<BigDecimal>', 'std::ops::Div') == path or p == path]
            if key:
                tasks.append(dict(base, kind='div_overload', ov=ovs[key[0]], dval=3))
    rep.required_labels = {'defaults', 'forwarding', 'display: exponent', 'display: plain', 'routes to impl_division', 'step: exit'}
    rep.bounds = {'configurations': cfgs, 'per configuration': 'defaults; sqrt/cbrt/inverse forwarding (symbolic decimal); Display threshold (1- and 3-digit integers, scales -60..60); round() D=4; {:.N}/{:.Ne} samples and padding-limit cases; division induction for listed denominators; unrolled division for precision <= 3'}
    rep.assumptions = ['as C04/C06/C08/C16 for the reused harnesses', 'exp(): only its precision constant is read (its accuracy is C13, not applicable)']
    rep.outside = ['values of the variables not in the listed configurations', 'exp accuracy']
    sys.stderr.write('[C20] %d configurations, %d tasks\n' % (len(cfgs), len(tasks)))
    results = H.run_parallel(tasks, worker, progress=200)
    rep.add(results)
    rep.validated = 0
    for r in results:
        for v in r['violations']:
            ok, out = confirm(v)
            v['native'] = out
            if ok:
                v['replay_file'] = H.write_replay_file(PROP, v)
                rep.confirmed.append(v)
            else:
                rep.unconfirmed.append(v)
    # translator validation: the defaults of every configuration, natively
    for cfg in cfgs[:4] if tier == 'quick' else cfgs[:12]:
        out = H.replay_lines(['config'], cfg_env=env_of(cfg))[0]
        rep.validated += 1
        if out != '%d %s' % (cfg['P'], cfg['M']):
            rep.validation_mismatches.append({'cfg': cfg, 'native': out})
    return rep.finish()


def replay(path):
    import json
    v = json.load(open(path))
    ok, out = confirm(v)
    print('replay %s -> native %s ; violation reproduced: %s' % (path, out, ok))
    return 1 if ok else 0
