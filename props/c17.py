"""C17 — serde round-trips every decimal; JSON numbers are read digit for digit (relative to serde / serde_json contracts).

The crate's serde code leaves the crate only through a dozen calls (Serializer::collect_str / serialize_none,
serde_json::Number::{from_str, as_str, serialize}, Option<Number>::deserialize, BigDecimal::deserialize inside the JSON adapter,
MapAccess::next_key / next_value, de::Error::{custom, invalid_type}).  Those are the stubs below; every stub states its contract."""
import json
import re
import sys
import z3

from mirsym import harness as H
from mirsym import engine as E
from mirsym import summaries as S
from mirsym.engine import Agg, Ref, mk_enum, is_sym
from . import common as C
from . import c04, c05

PROP = 'C17'
FEATURES = ('serde-json',)
OK = lambda v: mk_enum('Result', 'Ok', [v])
ERR = lambda v: mk_enum('Result', 'Err', [v])


class NumberV:
    """serde_json::Number under arbitrary_precision: carries its text verbatim"""
    def __init__(self, items):
        self.items = list(items)


def json_number_valid(m, items):
    """RFC 8259 number grammar over (possibly symbolic) characters; forks on the solver"""
    def isc(c, *codes):
        if isinstance(c, S.IntRender):
            return False
        if isinstance(c, int):
            return c in codes
        return m.branch_bool(z3.Or([c == k for k in codes]))

    def digit(c, lo=48):
        if isinstance(c, S.IntRender):
            return False
        if isinstance(c, int):
            return lo <= c <= 57
        return m.branch_bool(z3.And(c >= lo, c <= 57))
    i, n = 0, len(items)
    if i < n and isc(items[i], 45):
        i += 1
    if i >= n:
        return False
    if isc(items[i], 48):
        i += 1
    elif digit(items[i], 49):
        i += 1
        while i < n and digit(items[i]):
            i += 1
    else:
        return False
    if i < n and isc(items[i], 46):
        i += 1
        if i >= n or not digit(items[i]):
            return False
        while i < n and digit(items[i]):
            i += 1
    if i < n and isc(items[i], 101, 69):
        i += 1
        rest = items[i:]
        if len(rest) == 1 and isinstance(rest[0], S.IntRender):
            return True                      # a rendered integer (optional sign, digits) is a valid exponent
        if i < n and isc(items[i], 43, 45):
            i += 1
        if i >= n or not digit(items[i]):
            return False
        while i < n and digit(items[i]):
            i += 1
    return i == n


def stubs(m, env):
    """serde / serde_json environment contracts; env carries harness-chosen values (arbitrary inner results)"""
    def collect_str(mm, mo, args, tys, dty):
        # contract: collect_str(x) delivers exactly Display(x) to the format
        f = S.FmtV()
        val = args[1]
        while isinstance(val, Ref) and isinstance(val.get(), Ref):
            val = val.get()          # collect_str(&self) with self: &BigDecimal
        mm.call('<BigDecimal as std::fmt::Display>::fmt', [val, Ref([f], 0)], ['&BigDecimal', '&mut Formatter'], 'Result<(), Error>')
        env['collected'] = list(f.out)
        return OK(S.StrV(f.out))

    def serialize_none(mm, mo, args, tys, dty):
        env['none_serialized'] = True
        return OK('null')

    def number_from_str(mm, mo, args, tys, dty):
        # contract: succeeds iff the text matches the JSON number grammar, and then carries the text verbatim
        items = list(S.str_items(args[0]))
        env['number_text'] = items
        if json_number_valid(mm, items):
            return OK(NumberV(items))
        env['number_rejected'] = True
        return ERR(Agg('struct', 'serde_json::Error', []))

    def number_serialize(mm, mo, args, tys, dty):
        n = S.deref(args[0])
        return OK(S.StrV(n.items))

    def number_as_str(mm, mo, args, tys, dty):
        n = S.deref(args[0])
        return S.SliceV(n.items, 0, len(n.items))

    def bigdecimal_deserialize(mm, mo, args, tys, dty):
        # contract (inside the JSON adapter): the inner deserialization returns an ARBITRARY decimal
        return env['inner_result']

    def option_number_deserialize(mm, mo, args, tys, dty):
        return env['option_number']

    def error_custom(mm, mo, args, tys, dty):
        return Agg('struct', 'SerdeError', [])

    def invalid_type(mm, mo, args, tys, dty):
        return Agg('struct', 'SerdeError', [])

    def next_key(mm, mo, args, tys, dty):
        return env['next_key']

    def next_value(mm, mo, args, tys, dty):
        return env['next_value']

    def option_transpose(mm, mo, args, tys, dty):
        o = args[0]
        if o.variant == 'None':
            return OK(S.NONE())
        r = o.fields[0]
        return OK(S.some(r.fields[0])) if r.variant == 'Ok' else ERR(r.fields[0])

    def str_parse_bigdecimal(mm, mo, args, tys, dty):
        return mm.call('<BigDecimal as FromStr>::from_str', [args[0]], ['&str'], dty)

    def to_string_bigdecimal(mm, mo, args, tys, dty):
        f = S.FmtV()
        val = args[0]
        while isinstance(val, Ref) and isinstance(val.get(), Ref):
            val = val.get()
        mm.call('<BigDecimal as std::fmt::Display>::fmt', [val, Ref([f], 0)], ['&BigDecimal', '&mut Formatter'], 'Result<(), Error>')
        return S.StrV(f.out)

    def str_eq(mm, mo, args, tys, dty):
        a, b = list(S.str_items(args[0])), list(S.str_items(args[1]))
        if len(a) != len(b):
            return False
        conds = [x == y for x, y in zip(a, b)]
        if any(c is False for c in conds):
            return False
        sym = [c for c in conds if is_sym(c)]
        return z3.And(sym) if sym else True
    table = [
        (r'^<.* as (?:serde_crate::|serde::)?(?:ser::)?Serializer>::collect_str::<.*>$', collect_str),
        (r'^<.* as (?:serde_crate::|serde::)?(?:ser::)?Serializer>::serialize_none$', serialize_none),
        (r'^<serde_json::Number as (?:std::str::)?FromStr>::from_str$|^serde_json::Number::from_str$', number_from_str),
        (r'^<serde_json::Number as (?:serde_crate::|serde::)?Serialize>::serialize::<.*>$', number_serialize),
        (r'^serde_json::Number::as_str$', number_as_str),
        (r'^<BigDecimal as (?:serde_crate::|serde::)?Deserialize(?:<.*>)?>::deserialize::<.*>$', bigdecimal_deserialize),
        (r'^<(?:std::option::)?Option<serde_json::Number> as (?:serde_crate::|serde::)?Deserialize(?:<.*>)?>::deserialize::<.*>$', option_number_deserialize),
        (r'^<.* as (?:serde_crate::|serde::)?(?:de|ser)::Error>::custom::<.*>$', error_custom),
        (r'^<.* as (?:serde_crate::|serde::)?de::Error>::invalid_type$', invalid_type),
        (r'^<.* as (?:serde_crate::|serde::)?(?:de::)?MapAccess(?:<.*>)?>::next_key::<.*>$', next_key),
        (r'^<.* as (?:serde_crate::|serde::)?(?:de::)?MapAccess(?:<.*>)?>::next_value::<.*>$', next_value),
        (r'^(?:std::option::)?Option::<(?:std::result::)?Result<.*>>::transpose$', option_transpose),
        (r'^core::str::<impl str>::parse::<BigDecimal>$', str_parse_bigdecimal),
        (r'^<BigDecimal as std::string::ToString>::to_string$', to_string_bigdecimal),
        (r'^<(?:&)?str as PartialEq(?:<&?str>)?>::eq$', str_eq),
    ]
    m.overrides = [(re.compile(rx), fn) for rx, fn in table] + list(m.overrides)


def sym_decimal(m, L, slo, shi):
    n, scale = z3.Ints('n scale')
    neg = z3.Bool('neg')
    m.witness = {'n': n, 'scale': scale, 'neg': neg}
    S.DIGIT_BOUND[0] = max(L, 1) + 1
    m.assume(n == 0 if L == 0 else z3.And(n >= 10 ** (L - 1), n < 10 ** L))
    m.assume(z3.And(scale >= slo, scale <= shi))
    return z3.If(neg, -n, n), scale, n


def run_string_roundtrip(L, slo, shi):
    def run(m):
        env = {}
        stubs(m, env)
        x, scale, n = sym_decimal(m, L, slo, shi)
        r = m.call('<BigDecimal as serde_crate::Serialize>::serialize::<StubSer>', [Ref([C.dec(x, scale)], 0), 'ser'], ['&BigDecimal', 'StubSer'], 'Result')
        if r.variant != 'Ok':
            return [('serialization succeeds', True)]
        text = r.fields[0]
        # contract: a string-form deserializer hands that text to visit_str
        d = m.call('<BigDecimalVisitor as serde_crate::de::Visitor<\'_>>::visit_str::<StubErr>', [Agg('struct', 'BigDecimalVisitor', []), S.str_slice(text)], ['BigDecimalVisitor', '&str'], 'Result<BigDecimal, StubErr>')
        m.labels.add('string round trip')
        if d.variant != 'Ok':
            return [('serialized text deserializes: ' + S.show(text.items), True)]
        pi, ps = d.fields[0].fields
        if L == 0:
            return [('equal value', pi != 0)]
        off = m.concretize(ps - scale)
        same = (pi == x * 10 ** off) if off >= 0 else (pi * 10 ** (-off) == x)
        ident = z3.And(pi == x, ps == scale)
        allowed = z3.And(scale < 0, -scale <= 20)
        return [('string round trip gives an equal decimal', z3.Not(same)), ('digits and scale preserved wherever Display preserves them', z3.And(z3.Not(ident), z3.Not(allowed)))]
    return run


def run_visit_int(ty):
    v = z3.Int('v')

    def run(m):
        env = {}
        stubs(m, env)
        m.witness = {'v': v}
        lo, hi = E.INT_RANGE[ty]
        m.assume(z3.And(v >= lo, v <= hi))
        d = m.call('<BigDecimalVisitor as serde_crate::de::Visitor<\'_>>::visit_%s::<StubErr>' % ty, [Agg('struct', 'BigDecimalVisitor', []), v], ['BigDecimalVisitor', ty], 'Result<BigDecimal, StubErr>')
        m.labels.add('integer tokens')
        if d.variant != 'Ok':
            return [('visit_%s succeeds' % ty, True)]
        return [('visit_%s is exact with scale 0' % ty, z3.Or(d.fields[0].fields[0] != v, d.fields[0].fields[1] != 0))]
    return run


def run_visit_float(ty, exp):
    from . import c14
    ebits, mbits = S.FLOAT_FMT[ty][:2]
    bias = 2 ** (ebits - 1) - 1
    sign, frac = z3.Ints('sign frac')

    def run(m):
        env = {}
        stubs(m, env)
        m.witness = {'sign': sign, 'frac': frac}
        m.assume(z3.And(sign >= 0, sign <= 1, frac >= 0, frac < 2 ** mbits))
        sg = 1 if m.branch_bool(sign == 1) else 0
        m.assume(sign == sg)
        d = m.call('<BigDecimalVisitor as serde_crate::de::Visitor<\'_>>::visit_%s::<StubErr>' % ty, [Agg('struct', 'BigDecimalVisitor', []), S.FloatV(ty, sg, exp, frac)], ['BigDecimalVisitor', ty], 'Result<BigDecimal, StubErr>')
        m.labels.add('float tokens')
        if exp == 2 ** ebits - 1:
            return [('NaN / infinity tokens are errors, not panics', d.variant == 'Ok')]
        if d.variant != 'Ok':
            return [('finite float tokens convert', True)]
        ri, rs = d.fields[0].fields
        sc = m.concretize(rs)
        mant, p2 = (frac, 1 - bias - mbits) if exp == 0 else (frac + 2 ** mbits, exp - bias - mbits)
        smant = -mant if sg else mant
        lhs, rhs = ri, smant
        if sc >= 0:
            rhs = rhs * 10 ** sc
        else:
            lhs = lhs * 10 ** (-sc)
        if p2 >= 0:
            rhs = rhs * 2 ** p2
        else:
            lhs = lhs * 2 ** (-p2)
        return [('float token converts exactly', lhs != rhs)]
    return run


def run_json_serialize(L, slo, shi, option):
    def run(m):
        env = {}
        stubs(m, env)
        x, scale, n = sym_decimal(m, L, slo, shi)
        val = C.dec(x, scale)
        if option:
            r = m.call('arbitrary_precision_option::serialize::<StubSer>', [Ref([S.some(val)], 0), 'ser'], ['&Option<BigDecimal>', 'StubSer'], 'Result')
        else:
            r = m.call('arbitrary_precision::serialize::<StubSer>', [Ref([val], 0), 'ser'], ['&BigDecimal', 'StubSer'], 'Result')
        m.labels.add('json serialize')
        shown = S.show(env.get('number_text', []))
        obl = [('Display output is a valid JSON number (so the JSON-number adapter cannot fail): ' + shown, bool(env.get('number_rejected')) or r.variant != 'Ok')]
        if r.variant == 'Ok':
            # the emitted JSON number, read back digit for digit by the crate's parser, is the same decimal
            text = r.fields[0]
            p = m.call('<BigDecimal as FromStr>::from_str', [S.str_slice(text)], ['&str'], 'Result')
            if p.variant != 'Ok':
                obl.append(('emitted JSON number parses back', True))
            elif L > 0:
                pi, ps = p.fields[0].fields
                off = m.concretize(ps - scale)
                same = (pi == x * 10 ** off) if off >= 0 else (pi * 10 ** (-off) == x)
                obl.append(('JSON number round trip gives an equal decimal', z3.Not(same)))
        return obl
    return run


def run_json_deserialize(limit):
    x, s = z3.Ints('x s')

    def run(m):
        env = {'inner_result': OK(C.dec(x, s))}
        stubs(m, env)
        m.witness = {'x': x, 's': s}
        m.assume(z3.And(s >= -2 ** 63, s < 2 ** 63))
        r = m.call('arbitrary_precision::deserialize::<StubDe>', ['de'], ['StubDe'], 'Result<BigDecimal, StubErr>')
        m.labels.add('json deserialize')
        too_big = z3.And(limit > 0, z3.Or(s > limit, s < -limit)) if limit > 0 else z3.BoolVal(False)
        if r.variant == 'Ok':
            ri, rs = r.fields[0].fields
            return [('exponents beyond the configured limit are errors', too_big), ('value passed through unchanged', z3.Or(ri != x, rs != s))]
        return [('error only beyond the configured limit', z3.Not(too_big))]
    return run


def run_json_deserialize_err():
    def run(m):
        env = {'inner_result': ERR(Agg('struct', 'SerdeError', []))}
        stubs(m, env)
        r = m.call('arbitrary_precision::deserialize::<StubDe>', ['de'], ['StubDe'], 'Result<BigDecimal, StubErr>')
        return [('inner errors propagate as errors', r.variant == 'Ok')]
    return run


def run_option(N, kind):
    cs = [z3.Int('c%d' % i) for i in range(N)]

    def run(m):
        m.witness = dict(('c%d' % i, c) for i, c in enumerate(cs))
        if kind == 'none_de':
            env = {'option_number': OK(S.NONE())}
            stubs(m, env)
            r = m.call('arbitrary_precision_option::deserialize::<StubDe>', ['de'], ['StubDe'], 'Result')
            m.labels.add('null')
            return [('null deserializes to None', not (r.variant == 'Ok' and r.fields[0].variant == 'None'))]
        if kind == 'none_ser':
            env = {}
            stubs(m, env)
            r = m.call('arbitrary_precision_option::serialize::<StubSer>', [Ref([S.NONE()], 0), 'ser'], ['&Option<BigDecimal>', 'StubSer'], 'Result')
            return [('None serializes as null', not (r.variant == 'Ok' and env.get('none_serialized')))]
        # Some(number): ANY text of N characters that is a valid JSON number (contract of serde_json's tokenizer)
        for c in cs:
            m.assume(z3.And(c >= 0, c <= 0x7f))
        env = {}
        stubs(m, env)
        if not json_number_valid(m, cs):
            raise E.Infeasible()
        env['option_number'] = OK(S.some(NumberV(cs)))
        r = m.call('arbitrary_precision_option::deserialize::<StubDe>', ['de'], ['StubDe'], 'Result')
        ref = c05.ref_parse(m, cs)
        m.labels.add('json number text')
        if r.variant != 'Ok' or r.fields[0].variant != 'Some':
            return [('every JSON number is accepted', True)]
        if ref is None:
            return [('reference reading of a JSON number', True)]
        pi, ps = r.fields[0].fields[0].fields
        return [('JSON number converted digit for digit', z3.Or(pi != ref[0], ps != ref[1]))]
    return run


def run_visit_map(good):
    x, s = z3.Ints('x s')

    def run(m):
        key = '$serde_json::private::Number' if good else 'other'
        env = {'next_key': OK(S.some(key)), 'next_value': OK(C.dec(x, s))}
        stubs(m, env)
        m.witness = {'x': x, 's': s}
        r = m.call('<BigDecimalVisitor as serde_crate::de::Visitor<\'_>>::visit_map::<StubMap>', [Agg('struct', 'BigDecimalVisitor', []), 'map'], ['BigDecimalVisitor', 'StubMap'], 'Result')
        m.labels.add('map access')
        if good:
            if r.variant != 'Ok':
                return [('the arbitrary-precision number map is accepted', True)]
            return [('its value is passed through', z3.Or(r.fields[0].fields[0] != x, r.fields[0].fields[1] != s))]
        return [('any other map is an error', r.variant == 'Ok')]
    return run


def scale_limit(prog):
    for k, (ty, v) in prog.consts.items():
        if k.endswith('SERDE_SCALE_LIMIT'):
            return int(re.match(r'^const (-?\d+)_', v).group(1))
    raise RuntimeError('SERDE_SCALE_LIMIT not found in the dump')


def worker(t):
    prog = H.get_program(features=FEATURES)
    S.BITS_MODE[:] = ['ladder', 192]        # exact bit-length facts (the pinned code of this property never asks for bits() of a symbolic integer; rewrites might)
    k = t['kind']
    if k == 'string':
        run = run_string_roundtrip(t['L'], t['slo'], t['shi'])
    elif k == 'visit_int':
        run = run_visit_int(t['ty'])
    elif k == 'visit_float':
        run = run_visit_float(t['ty'], t['exp'])
    elif k == 'json_ser':
        run = run_json_serialize(t['L'], t['slo'], t['shi'], t['option'])
    elif k == 'json_de':
        run = run_json_deserialize(t['limit'])
    elif k == 'json_de_err':
        run = run_json_deserialize_err()
    elif k == 'option':
        run = run_option(t['N'], t['what'])
    else:
        run = run_visit_map(t['good'])
    return H.explore_task(prog, run, task=t, loop_bound=4000, timeout_ms=60000, deadline_s=900)


def confirm(v):
    """native replay through the real serde / serde_json stack (feature serde-json)"""
    t, mdl = v['task'], v['model']
    if mdl is None:
        return False, 'no model'
    k = t['kind']
    if k in ('string', 'json_ser'):
        x = -mdl['n'] if mdl.get('neg') else mdl['n']
        what = 'string' if k == 'string' else ('json_option' if t.get('option') else 'json_num')
        out = H.replay_lines(['serde\t%s\t%s' % (what, H.dec_str(x, mdl['scale']))], cfg_env={'VERIF_REPLAY_FEATURES': 'serde'})[0]
        # "<serialized>\x1f<deserialized int:scale | ERR msg>"
        if out.startswith('PANIC') or '\x1fERR' in out or out.startswith('SER-ERR'):
            return True, out
        ser, back = out.split('\x1f')
        bi, bs = H.parse_dec(back)
        M = max(bs, mdl['scale'])
        if bi * 10 ** (M - bs) != x * 10 ** (M - mdl['scale']):
            return True, out
        return ('digits and scale' in v['detail'] and (bi, bs) != (x, mdl['scale'])), out
    if k == 'json_de':
        out = H.replay_lines(['serde\tjson_de\t%s' % ('%de%d' % (mdl['x'], -mdl['s']))], cfg_env={'VERIF_REPLAY_FEATURES': 'serde'})[0]
        lim = t['limit']
        want_err = lim > 0 and abs(mdl['s']) > lim
        if out.startswith('PANIC'):
            return True, out
        return (out.startswith('ERR') != want_err), out
    if k == 'option':
        s = ''.join(chr(mdl['c%d' % i]) for i in range(t['N']))
        out = H.replay_lines(['serde\tjson_option_de\t%s' % s.encode().hex()], cfg_env={'VERIF_REPLAY_FEATURES': 'serde'})[0]
        ref = c05.py_ref(s)
        exp = 'ERR' if ref is None else H.dec_str(*ref)
        return not out.startswith(exp), '%r -> %s (reference %s)' % (s, out, exp)
    if k == 'probe':
        from . import c05
        s = mdl['text']
        ref = c05.py_ref(s)
        line = 'serde\t%s\t%s' % (t['op'], s if t['op'] == 'json_de' else s.encode().hex())
        out = H.replay_lines([line], cfg_env={'VERIF_REPLAY_FEATURES': 'serde'})[0]
        return out != H.dec_str(*ref), out
    if k == 'visit_float':
        import struct
        from fractions import Fraction
        ebits, mbits = S.FLOAT_FMT[t['ty']][:2]
        b = (mdl['sign'] << (ebits + mbits)) | (t['exp'] << mbits) | mdl['frac']
        out = H.replay_lines(['serde\tde_token\t%s\t0x%x' % (t['ty'], b)], cfg_env={'VERIF_REPLAY_FEATURES': 'serde'})[0]
        fmt = S.FLOAT_FMT[t['ty']]
        f = struct.unpack(fmt[2], struct.pack(fmt[3], b))[0]
        if out.startswith('PANIC'):
            return True, out
        if f != f or f in (float('inf'), float('-inf')):
            return not out.startswith('ERR'), out
        if out.startswith('ERR'):
            return True, out
        ri, rs = H.parse_dec(out)
        return Fraction(ri) * Fraction(10) ** (-rs) != Fraction(f), out
    if k == 'visit_int':
        out = H.replay_lines(['serde\tde_token\t%s\t%d' % (t['ty'], mdl['v'])], cfg_env={'VERIF_REPLAY_FEATURES': 'serde'})[0]
        return out != H.dec_str(mdl['v'], 0), out
    return False, 'no native replay for ' + k


def main(tier):
    rep = H.Report(PROP, tier)
    prog = H.get_program(features=FEATURES)
    rng = H.rng(PROP)
    limit = scale_limit(prog)
    D = 8 if tier == 'quick' else 24
    tasks = []
    for L in range(0, D + 1):
        for (lo, hi) in ((-c04.SCALE_LIMIT, -41), (-40, 60), (61, c04.SCALE_LIMIT)):
            tasks.append({'kind': 'string', 'L': L, 'slo': lo, 'shi': hi})
            tasks.append({'kind': 'json_ser', 'L': L, 'slo': lo, 'shi': hi, 'option': bool(L % 2)})
    for ty in ('u64', 'i64', 'u128', 'i128'):
        tasks.append({'kind': 'visit_int', 'ty': ty})
    # every f32 exponent field; for f64 every field from 2^-10 upward (integer-valued and machine-width boundaries 2^7..2^128
    # included: one or two paths each above 2^52) plus the extremes
    for ty, exps in (('f32', list(range(0, 256))), ('f64', sorted(set([0, 1, 2, 500, 1000] + list(range(1013, 2048)))) if tier == 'quick' else list(range(0, 2048)))):
        for e in exps:
            tasks.append({'kind': 'visit_float', 'ty': ty, 'exp': e})
    tasks.append({'kind': 'json_de', 'limit': limit})
    tasks.append({'kind': 'json_de_err'})
    tasks.append({'kind': 'option', 'N': 0, 'what': 'none_de'})
    tasks.append({'kind': 'option', 'N': 0, 'what': 'none_ser'})
    for N in range(1, (6 if tier == 'quick' else 8) + 1):
        tasks.append({'kind': 'option', 'N': N, 'what': 'some'})
    tasks.append({'kind': 'map', 'good': True})
    tasks.append({'kind': 'map', 'good': False})
    rep.required_labels = {'string round trip', 'integer tokens', 'float tokens', 'json serialize', 'json deserialize', 'null', 'json number text', 'map access'}
    rep.bounds = {'digits': '0..%d symbolic digits and sign' % D, 'scale': 'symbolic over [-10^15, 10^15] for the round trips; the whole i64 range for the JSON adapter limit check',
                  'SERDE_SCALE_LIMIT read from the dump': limit, 'JSON number texts': 'every ASCII text of length 1..%d that satisfies the JSON number grammar' % (6 if tier == 'quick' else 8)}
    rep.assumptions = ['serde contracts: collect_str(x) delivers Display(x); a string-form deserializer calls visit_str with that text; the arbitrary-precision JSON map yields the key "$serde_json::private::Number" then the number text',
                       'serde_json contracts: Number::from_str succeeds iff the text is a JSON number and carries it verbatim; Number::as_str / serialize hand that text on; Option<Number>::deserialize yields None for null',
                       'the inner BigDecimal::deserialize of the JSON adapter returns an arbitrary decimal']
    rep.outside = ["serde_json's tokenizer and the generic (de)serializer machinery themselves", 'non-JSON formats beyond the visitor entry points', 'more than D digits']
    sys.stderr.write('[C17] %d tasks, SERDE_SCALE_LIMIT=%d\n' % (len(tasks), limit))
    results = H.run_parallel(tasks, worker, progress=50)
    rep.add(results)
    rep.validated, rep.validation_mismatches = validate(prog, rng, 60 if tier == 'quick' else 600)
    rep.extra['native_json_probes'] = native_probe(rng, 150 if tier == 'quick' else 2000, rep)
    findings = H.load_known_findings(PROP)
    for r in results:
        for v in r['violations']:
            try:
                ok, out = confirm(v)
            except Exception as e:       # the native serde replay needs the serde-json feature build
                ok, out = False, 'native replay failed: %s' % e
            v['native'] = out
            if ok:
                v['replay_file'] = H.write_replay_file(PROP, v)
                rep.confirmed.append(v)
            else:
                rep.unconfirmed.append(v)
    return rep.finish()


def validate(prog, rng, n):
    """concrete decimals: the text produced by the MIR executor under the collect_str contract vs the real serde_json output"""
    cases = []
    for i in range(n):
        L = rng.randint(1, 12)
        x = rng.choice([0, 10 ** (L - 1), rng.randint(10 ** (L - 1), 10 ** L - 1)]) * rng.choice([1, -1])
        cases.append((x, rng.choice([0, 1, L, L + 5, L + 6, -1, -15, -16, -21, rng.randint(-40, 40)])))
    outs = H.replay_lines(['serde\tstring\t%s' % H.dec_str(x, sc) for x, sc in cases], cfg_env={'VERIF_REPLAY_FEATURES': 'serde'})
    mism = []
    S.DIGIT_BOUND[0] = 40
    for (x, sc), nat in zip(cases, outs):
        m = E.Machine(prog, (), [], E.Stats(), loop_bound=4000)
        env = {}
        stubs(m, env)
        try:
            r = m.call('<BigDecimal as serde_crate::Serialize>::serialize::<StubSer>', [Ref([C.dec(x, sc)], 0), 'ser'], ['&BigDecimal', 'StubSer'], 'Result')
            mine = '"%s"' % S.show(r.fields[0].items)
        except E.PathEnd as e:
            mine = 'ENGINE:%s' % e
        if mine != nat.split('\x1f')[0]:
            mism.append({'case': [x, sc], 'mirsym': mine, 'native': nat})
    return len(cases), mism


def native_probe(rng, n, rep):
    """end-to-end through the REAL serde / serde_json stack (the environment the symbolic part only models by contracts):
    every adapter must read JSON numbers digit for digit and round-trip what it wrote"""
    from . import c05
    nums = ['0.1', '12.34', '-2.01', '1e-7', '0.0008741329382918', '50', '0.5', '123.400', '-0', '0.000', '1E+2', '9007199254740993', '18446744073709551616',
            '0.30000000000000004', '3.141592653589793238462643383279', '1e400', '-1e-400', '123456789012345678901234567890.123456789', '1.7976931348623157e308', '4.9e-324']
    for i in range(n):
        s = str(rng.randint(0, 10 ** rng.randint(1, 25)))                 # JSON: no leading zeros in the integer part
        if rng.random() < 0.7:
            s += '.' + ''.join(rng.choice('0123456789') for _ in range(rng.randint(1, 20)))
        if rng.random() < 0.3:
            s += rng.choice(['e', 'E']) + rng.choice(['', '+', '-']) + str(rng.randint(0, 30))
        nums.append(('-' if rng.random() < 0.3 else '') + s)
    lines, exp, what = [], [], []
    for s in nums:
        ref = c05.py_ref(s)
        if ref is None:
            continue
        for op in ('json_de', 'json_option_de'):
            lines.append('serde\t%s\t%s' % (op, s if op == 'json_de' else s.encode().hex()))
            exp.append(H.dec_str(*ref))
            what.append((op, s))
    outs = H.replay_lines(lines, cfg_env={'VERIF_REPLAY_FEATURES': 'serde'})
    lim = None
    for (op, s), o, e in zip(what, outs, exp):
        if o.startswith('ERR') and abs(int(e.rsplit(':', 1)[1])) > 1000:
            continue                     # beyond the configured scale limit of the json adapters: refusing is the contract
        if o != e:
            H.probe_violation(rep, PROP, 'native %s of the JSON number %s gives %s, digit for digit it is %s' % (op, s, o, e), {'kind': 'probe', 'op': op}, {'text': s}, o)
    return len(lines)


def replay(path):
    v = json.load(open(path))
    ok, out = confirm(v)
    print('replay %s -> native %s ; violation reproduced: %s' % (path, out, ok))
    return 1 if ok else 0
