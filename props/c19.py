"""C19 — programs of exact operations give exact results whatever the intermediate forms.

Decided inductively: ONE step of every exact operation / overload from an ARBITRARY accumulator representation (any integer,
any scale: zero carrying a scale, one written 100@2, trailing zeros) yields exactly the rational result; the post-state is again
an arbitrary representation, so programs of any length are exact.  Plus: Sum over short lists, and seeded straight-line
programs with symbolic operands executed end to end (every prefix asserted)."""
import sys
import z3

from mirsym import harness as H
from mirsym import engine as E
from mirsym import summaries as S
from mirsym.engine import Agg, Ref
from . import common as C
from . import contracts as K
from . import c01

PROP = 'C19'


def run_sum(byref, scales):
    xs = [z3.Int('x%d' % i) for i in range(len(scales))]
    s0 = 0          # the fold starts from zero@0, so item scales are absolute (concrete)

    def run(m):
        m.witness = dict(('x%d' % i, x) for i, x in enumerate(xs))
        m.witness['s0'] = s0
        items = [C.dec(x, s0 + g) for x, g in zip(xs, scales)]
        if byref:
            it = S.ListIterV([Ref([d], 0) for d in items])
            r = m.call("<BigDecimal as Sum<&BigDecimal>>::sum::<I>", [it], ['I'], 'BigDecimal')
        else:
            it = S.ListIterV(items)
            r = m.call('<BigDecimal as Sum>::sum::<I>', [it], ['I'], 'BigDecimal')
        ri, rs = r.fields
        if not scales:
            return [('empty sum is zero', ri != 0)]
        M = max(scales)
        d = m.concretize(rs - s0)
        MM = max(M, d)
        total = sum(x * 10 ** (MM - g) for x, g in zip(xs, scales))
        m.labels.add('sum')
        return [('iterator sum exact', ri * 10 ** (MM - d) != total)]
    return run


UNARY_STEPS = ['neg', 'abs', 'double', 'half', 'square', 'normalized', 'to_ref_to_owned', 'clone', 'rescale_up']


def run_program(prog_desc):
    """prog_desc: {'s': start scale, 'steps': [(kind, ...)]}; accumulator starts as acc0@s; operands symbolic"""
    acc0 = z3.Int('acc0')

    def run(m):
        m.witness = {'acc0': acc0}
        acc = C.dec(acc0, prog_desc['s'])
        num, sc = acc0, prog_desc['s']          # exact value num * 10^-sc (sc python int)
        obl = []
        for i, st in enumerate(prog_desc['steps']):
            kind = st[0]
            if kind == 'bin':
                _, ov, ysc, yconst = st
                y = z3.Int('y%d' % i) if yconst is None else yconst
                m.witness['y%d' % i] = y
                if yconst is None:
                    C.assume_range(m, ov['rhs'], y)
                    if ov['op'] == '*':
                        m.assume(z3.And(y >= -1000, y <= 1000))
                lhs_ty = ov['lhs']
                a = acc if C.base_type(lhs_ty) == 'BigDecimal' else (Ref([acc], 0) if C.base_type(lhs_ty) in ('&BigDecimal', '&mut BigDecimal') else C.decref(m, acc.fields[0], acc.fields[1]))
                b = C.make_operand(m, ov['rhs'], y, ysc)
                r = m.call(ov['path'], [a, b], [lhs_ty, ov['rhs']], '()' if ov['assign'] else 'BigDecimal')
                acc = a.get() if ov['assign'] else r
                if ov['op'] == '*':
                    num, sc = num * y, sc + (ysc if C.kind_of(ov['rhs']) == 'dec' else 0)
                else:
                    ys = ysc if C.kind_of(ov['rhs']) == 'dec' else 0
                    M = max(sc, ys)
                    num = num * 10 ** (M - sc) + (y if ov['op'] == '+' else -y) * 10 ** (M - ys)
                    sc = M
            else:
                name = st[1]
                if name == 'rescale_up':
                    k = st[2]
                    tgt = m.concretize(acc.fields[1]) + k
                    acc = m.call('BigDecimal::with_scale', [Ref([acc], 0), tgt], ['&BigDecimal', 'i64'], 'BigDecimal')
                elif name == 'neg':
                    acc = m.call('<BigDecimal as std::ops::Neg>::neg', [acc], ['BigDecimal'], 'BigDecimal')
                    num = -num
                elif name == 'abs':
                    acc = m.call('BigDecimal::abs', [Ref([acc], 0)], ['&BigDecimal'], 'BigDecimal')
                    num = z3.If(num >= 0, num, -num)
                elif name == 'double':
                    acc = m.call('BigDecimal::double', [Ref([acc], 0)], ['&BigDecimal'], 'BigDecimal')
                    num = 2 * num
                elif name == 'half':
                    acc = m.call('BigDecimal::half', [Ref([acc], 0)], ['&BigDecimal'], 'BigDecimal')
                    num, sc = 5 * num, sc + 1
                elif name == 'normalized':
                    acc = m.call('BigDecimal::normalized', [Ref([acc], 0)], ['&BigDecimal'], 'BigDecimal')
                elif name == 'to_ref_to_owned':
                    rf = m.call('BigDecimal::to_ref', [Ref([acc], 0)], ['&BigDecimal'], 'BigDecimalRef')
                    acc = m.call('BigDecimalRef::to_owned', [Ref([rf], 0)], ['&BigDecimalRef'], 'BigDecimal')
                elif name == 'clone':
                    acc = m.call('<BigDecimal as Clone>::clone', [Ref([acc], 0)], ['&BigDecimal'], 'BigDecimal')
            ri, rs = acc.fields
            d = m.concretize(rs)
            M = max(d, sc)
            obl.append(('prefix %d (%s) exact' % (i + 1, st[1]['path'] if kind == 'bin' else st[1]), ri * 10 ** (M - d) != num * 10 ** (M - sc)))
        m.labels.add('program')
        return obl
    return run


def make_programs(prog, rng, count, maxlen):
    ovs = [o for o in c01.overloads(prog)]
    out = []
    for i in range(count):
        n = rng.randint(1, maxlen)
        steps = []
        muls = 0
        for j in range(n):
            if rng.random() < 0.65:
                ov = rng.choice([o for o in ovs if C.kind_of(o['lhs']) == 'dec' and (o['op'] != '*' or muls < 3)])
                if ov['op'] == '*':
                    muls += 1
                ysc = rng.choice([0, 0, 1, 2, 3, 7, 19, 20, 21, -2, -5]) if C.kind_of(ov['rhs']) == 'dec' else 0
                yconst = rng.choice([None, None, None, 0, 1, -1, 2, 10, 100]) if not C.kind_of(ov['rhs']).startswith('int:u') else rng.choice([None, None, 0, 1, 2, 100])
                if ov['op'] == '*':
                    # multiplications use concrete factors so that every prefix stays linear in the symbolic operands
                    lo, hi = E.INT_RANGE.get(C.kind_of(ov['rhs'])[4:], (-10 ** 30, 10 ** 30)) if C.kind_of(ov['rhs']).startswith('int:') else (-10 ** 30, 10 ** 30)
                    yconst = rng.choice([v for v in [0, 1, -1, 2, 3, 10, 100, -25, 125, 99999, hi, lo, 10 ** 19, 10 ** 20] if lo <= v <= hi])
                steps.append(('bin', ov, ysc, yconst))
            else:
                simple_so_far = all(st[0] == 'un' and st[1] in ('clone', 'to_ref_to_owned', 'rescale_up', 'neg', 'abs', 'normalized') for st in steps)
                # normalized() only while the accumulator is still acc0 * 10^k (its trailing-zero analysis stays linear);
                # its step from an ARBITRARY representation is decided in C18 (real body) and used by contract in C01
                name = rng.choice(['neg', 'abs', 'double', 'half', 'to_ref_to_owned', 'clone', 'rescale_up'] + (['normalized', 'normalized'] if simple_so_far else []))
                steps.append(('un', name, rng.choice([0, 1, 3, 20, 25])) if name == 'rescale_up' else ('un', name))
        out.append({'s': rng.choice([0, 0, 2, 5, -3, 25]), 'steps': steps})
    return out


def worker(t):
    prog = H.get_program()
    if t['kind'] in ('binop', 'unary'):
        return c01.worker(t)
    S.BITS_MODE[:] = ['uf', 128]
    saved = list(E.DEFAULT_OVERRIDES)
    try:
        E.DEFAULT_OVERRIDES[:] = K.EQ_CONTRACTS + K.NORMALIZED_CONTRACTS
        if t['kind'] == 'sum':
            run = run_sum(t['byref'], t['scales'])
        else:
            run = run_program(t['prog'])
        if t['kind'] == 'program':
            r = H.explore_task(prog, run, task=t, loop_bound=1500, timeout_ms=20000, deadline_s=150, max_paths=20000)
            hard = [i for i in r['inconclusive'] if i['kind'] == 'deadline' or 'solver unknown' in i['detail']]
            if hard and len(hard) == len(r['inconclusive']) and not r['violations']:
                # a program whose queries the solver cannot decide in time is dropped from the claim and counted, never passed
                r['inconclusive'] = []
                r['labels'] = set(r['labels']) | {'program skipped: solver could not decide in time'}
                r['skipped_program'] = True
            return r
        return H.explore_task(prog, run, task=t, loop_bound=1500, timeout_ms=60000, deadline_s=600, max_paths=20000)
    finally:
        E.DEFAULT_OVERRIDES[:] = saved


def confirm(v):
    t = v['task']
    if t['kind'] in ('binop', 'unary'):
        return c01.confirm(v)
    mdl = v['model']
    if not mdl:
        return False, 'no model'
    if t['kind'] == 'sum':
        s0 = mdl['s0']
        items = [H.dec_str(mdl['x%d' % i], s0 + g) for i, g in enumerate(t['scales'])]
        out = H.replay_lines(['sum\t%s\t%s' % ('ref' if t['byref'] else 'val', ','.join(items))])[0]
        if out.startswith('PANIC'):
            return True, out
        ri, rs = H.parse_dec(out)
        M = max([s0 + g for g in t['scales']] + [rs])
        tot = sum(mdl['x%d' % i] * 10 ** (M - s0 - g) for i, g in enumerate(t['scales']))
        return ri * 10 ** (M - rs) != tot, out
    # program: replay step by step through the native overloads
    acc = (mdl['acc0'], t['prog']['s'])
    num, sc = acc
    for i, st in enumerate(t['prog']['steps']):
        if st[0] == 'bin':
            ov, ysc, yconst = st[1], st[2], st[3]
            y = mdl.get('y%d' % i, 0) if yconst is None else yconst
            lt = C.norm_ty(ov['lhs'])
            rk = C.kind_of(ov['rhs'])
            line = '\t'.join(['binop', ov['trait'], lt, C.norm_ty(ov['rhs']), H.dec_str(*acc), H.dec_str(y, ysc) if rk == 'dec' else str(y)])
            out = H.replay_lines([line])[0]
            ys = ysc if rk == 'dec' else 0
            if ov['op'] == '*':
                num, sc = num * y, sc + ys
            else:
                M = max(sc, ys)
                num, sc = num * 10 ** (M - sc) + (y if ov['op'] == '+' else -y) * 10 ** (M - ys), M
        else:
            name = st[1]
            if name == 'rescale_up':
                out = H.replay_lines(['with_scale\t%s\t%d' % (H.dec_str(*acc), acc[1] + st[2])])[0]
            else:
                out = H.replay_lines(['unop\t%s\t%s' % (name, H.dec_str(*acc))])[0]
                if name == 'neg':
                    num = -num
                elif name == 'abs':
                    num = abs(num)
                elif name == 'double':
                    num *= 2
                elif name == 'half':
                    num, sc = num * 5, sc + 1
        if out.startswith('PANIC') or out.startswith('UNKNOWN'):
            return out.startswith('PANIC'), out
        acc = H.parse_dec(out)
        M = max(acc[1], sc)
        if acc[0] * 10 ** (M - acc[1]) != num * 10 ** (M - sc):
            return True, 'step %d -> %s' % (i + 1, out)
    return False, 'program reproduces the exact value natively'


def main(tier):
    rep = H.Report(PROP, tier)
    prog = H.get_program()
    rng = H.rng(PROP)
    # (1) inductive step: the C01 task set on a reduced gap list (C01 itself carries the full list)
    ovs, gaps, c01_tasks = c01.build_tasks(prog, 'quick', rng)
    keep_gaps = set(list(range(0, 26)) + [589, 590, 591]) if tier == 'quick' else set(gaps)
    tasks = [t for t in c01_tasks if t['kind'] == 'unary' or t['ov']['op'] == '*' and t.get('contracts') or (t['ov']['op'] != '*' and abs(t['ga']) in keep_gaps and abs(t['gb']) in keep_gaps)]
    # (2) Sum
    for byref in (False, True):
        for scales in [[], [0], [3], [-4], [0, 0], [0, 2], [5, 0], [-3, 2], [0, 1, 2], [2, 0, 1], [0, 20, 0], [25, 0, 3], [0, 0, 0], [-20, 1, 0]]:
            tasks.append({'kind': 'sum', 'byref': byref, 'scales': scales})
    # (3) seeded straight-line programs, symbolic operands
    for pd in make_programs(prog, rng, 150 if tier == 'quick' else 1500, 6 if tier == 'quick' else 12):
        tasks.append({'kind': 'program', 'prog': pd})
    rep.required_labels = {'sum', 'program'}
    rep.bounds = {'inductive_step_tasks': len([t for t in tasks if t['kind'] in ('binop', 'unary')]), 'gaps': sorted(keep_gaps),
                  'sum_lists': 'length 0..3, listed scale patterns, unbounded symbolic integers',
                  'programs': '%d seeded programs of length <= %d, symbolic addends/subtrahends, concrete multipliers (incl. 0, +-1, type MIN/MAX, 10^19, 10^20), concrete scales' % (150 if tier == 'quick' else 1500, 6 if tier == 'quick' else 12)}
    rep.assumptions = ['as C01; == and normalized() substituted by their contracts (C02/C18) inside programs']
    rep.outside = ['comparisons and hashes of intermediates (decided in C02/C03 on arbitrary representations)']
    sys.stderr.write('[C19] %d tasks\n' % len(tasks))
    results = H.run_parallel(tasks, worker, progress=2000)
    rep.add(results)
    nprog = len([r for r in results if r['task'] and r['task'].get('kind') == 'program'])
    skipped = len([r for r in results if r.get('skipped_program')])
    rep.extra['programs_run'] = nprog
    rep.extra['programs_skipped_solver_undecided'] = skipped
    if skipped * 10 > nprog:
        results[0]['inconclusive'].append({'kind': 'bound', 'detail': '%d of %d programs undecided by the solver' % (skipped, nprog)})
    rep.validated, rep.validation_mismatches = c01.validate(prog, ovs, rng, 200 if tier == 'quick' else 2000, rep, PROP)
    for r in results:
        for v in r['violations']:
            ok, out = confirm(v)
            v['native'] = out
            if ok:
                v['replay_file'] = H.write_replay_file(PROP, v)
                rep.confirmed.append(v)
            else:
                rep.unconfirmed.append(v)
    return rep.finish()


def replay(path):
    import json
    v = json.load(open(path))
    ok, out = confirm(v)
    print('replay %s -> native %s ; violation reproduced: %s' % (path, out, ok))
    return 1 if ok else 0
