"""C10 — square root is the true root rounded as the context dictates (relative to the integer-sqrt contract).

BigUint::sqrt(N) is the environment: a fresh r within the integer-sqrt bounds of N's digit-count range, and a free Boolean
`exact` standing for r*r == N; the true root is rho in [r, r+1), rho == r iff exact.  What is decided is everything bigdecimal
does around it: digit counting, the power-of-ten pre-scaling and its parity, the result-scale computation (BigDecimal / 4.0 and
HalfEven rounding, executed on concrete numbers) and the final rounding to p digits, which must equal rounding rho*10^-E."""
import json
import sys
import z3

from mirsym import harness as H
from mirsym import engine as E
from mirsym import summaries as S
from mirsym.engine import Agg, Ref, mk_enum, is_sym
from . import common as C
from . import contracts as K
from . import spec
from .c06 import mode_val
from .c07 import ctx_val

PROP = 'C10'
# the two historical defect regions are excluded / split off only while they are still LISTED as findings in known_findings.json;
# once repaired (entries moved to `fixed`) the regions are checked like everything else
KNOWN_IDS = set(f['id'] for f in H.load_known_findings('C10'))
MODES = spec.MODES
ENTRIES = ['sqrt_with_context', 'ref_sqrt_with_context', 'ref_sqrt_abs', 'ref_sqrt_copysign']


def call_sqrt(m, entry, x, scale, p, mode):
    ctx = Ref([ctx_val(p, mode)], 0)
    if entry == 'sqrt_with_context':
        return m.call('BigDecimal::sqrt_with_context', [Ref([C.dec(x, scale)], 0), ctx], ['&BigDecimal', '&Context'], 'Option<BigDecimal>')
    rf = Ref([C.decref(m, x, scale)], 0)
    name = {'ref_sqrt_with_context': 'sqrt_with_context', 'ref_sqrt_abs': 'sqrt_abs_with_context', 'ref_sqrt_copysign': 'sqrt_copysign_with_context'}[entry]
    return m.call('BigDecimalRef::' + name, [rf, ctx], ["&BigDecimalRef<'_>", '&Context'], 'Option<BigDecimal>' if name == 'sqrt_with_context' else 'BigDecimal')


def run_sqrt(entry, nd, scale, p, mode, sign):
    """all non-negative (or, for the reference variants, signed) decimals whose unscaled integer has exactly nd digits"""
    n = z3.Int('n')

    def run(m):
        m.witness = {'n': n}
        m.root_facts = []
        S.DIGIT_BOUND[0] = max(nd, 2 * (p + 5)) + 6
        K.DIGITS_MAX[0] = max(nd, 2 * (p + 5)) + 6
        K.ROOT_DIGITS_MAX[0] = max(nd, 2 * (p + 5)) + 8
        if nd == 0:
            m.assume(n == 0)
        else:
            m.assume(z3.And(n >= 10 ** (nd - 1), n < 10 ** nd))
        x = n if sign >= 0 else -n
        r = call_sqrt(m, entry, x, scale, p, mode)
        # unwrap Option
        if isinstance(r, Agg) and r.kind == 'enum' and r.name == 'Option':
            if r.variant == 'None':
                m.labels.add('None')
                return [('None only for negative input', z3.BoolVal(not (sign < 0 and nd > 0)))]
            val = r.fields[0]
            if sign < 0 and nd > 0:
                return [('negative input yields None', True)]
        else:
            val = r
        ri, rs = val.fields
        if nd == 0:
            m.labels.add('zero')
            return [('sqrt(0) is zero', ri != 0)]
        if not m.root_facts:
            # is_one shortcut (returns self): the value must then be one
            m.labels.add('shortcut')
            sc = m.concretize(rs)
            one = (ri == 10 ** sc) if sc >= 0 else z3.BoolVal(False)
            same = z3.And(ri == n, rs == scale)
            return [('shortcut only for the value one', z3.Not(z3.And(same, one)))]
        if len(m.root_facts) != 1:
            return [('exactly one integer square root', True)]
        N, r0, exact = m.root_facts[0]
        # N must be n * 10^e with (e + scale) even
        obl = []
        # recover e: N == n*10^e  for a concrete e (the code computed it from concrete nd, scale, p)
        e = None
        for cand in range(0, 2 * (p + 5) + 3):
            if not m.feasible(N != n * 10 ** cand):
                e = cand
                break
        if e is None:
            return [('the radicand is n * 10^e', True)]
        if (e + scale) % 2:
            m.labels.add('odd parity')
            return [('e + scale must be even (otherwise the digits are those of sqrt(10x))', True)]
        Eh = (e + scale) // 2                    # sqrt(x) = rho * 10^-Eh
        d = K._digit_count_fork(m, r0, 'root digits')
        if d <= p:
            return [('the root carries more than p digits before rounding', True)]
        k = d - p
        q, rem = m.fresh('rq'), m.fresh('rr')
        m.assume(z3.And(r0 == q * 10 ** k + rem, rem >= 0, rem < 10 ** k, q >= 0))
        neg_result = (entry == 'ref_sqrt_copysign' and sign < 0)
        # the copy-sign variant returns THE SAME root (rounded as a non-negative number) carrying the sign of x
        up = spec.round_up_cond(mode, False, q, rem, 10 ** k, exact)
        mag = z3.If(up, q + 1, q)
        # expected value: mag * 10^-(Eh - k)
        sc = m.concretize(rs)
        es = Eh - k
        M = max(sc, es)
        rmag = z3.If(ri >= 0, ri, -ri)
        wrong_val = rmag * 10 ** (M - sc) != mag * 10 ** (M - es)
        # known finding (b): the fractional part of the root is ignored ("sticky bit dropped"): matters only when the integer
        # root's discarded digits are all zero or exactly one half while the root is not exact
        region_b = z3.And(z3.Not(exact), z3.Or(rem == 0, 2 * rem == 10 ** k))
        m.labels.add('rounds the root')
        if 'C10-sticky' in KNOWN_IDS:
            obl.append(('value is sqrt(x) rounded to p digits under the mode', z3.And(wrong_val, z3.Not(region_b))))
            obl.append(('KNOWN:sticky', z3.And(wrong_val, region_b)))
        else:
            obl.append(('value is sqrt(x) rounded to p digits under the mode', wrong_val))
        if neg_result:
            obl.append(('copysign variant carries the sign', ri > 0))
        else:
            obl.append(('root is non-negative', ri < 0))
        return obl
    return run


def worker(t):
    prog = H.get_program()
    S.BITS_MODE[:] = ['ladder', 192]        # exact bit-length facts (the pinned code of this property never asks for bits() of a symbolic integer; rewrites might)
    saved = list(E.DEFAULT_OVERRIDES)
    try:
        E.DEFAULT_OVERRIDES[:] = K.DIGIT_CONTRACTS + K.ROUNDING_TERM_CONTRACTS + K.EQ_CONTRACTS + K.SQRT_CONTRACTS
        r = H.explore_task(prog, run_sqrt(t['entry'], t['nd'], t['scale'], t['p'], t['mode'], t['sign']), task=t, loop_bound=3000, timeout_ms=60000, deadline_s=900, max_violations=6)
        # split off the known-finding obligations
        known = [v for v in r['violations'] if v['detail'].startswith('KNOWN:')]
        r['violations'] = [v for v in r['violations'] if not v['detail'].startswith('KNOWN:')]
        r['known_hits'] = known[:1]
        return r
    finally:
        E.DEFAULT_OVERRIDES[:] = saved


def native_sqrt(entry, x, scale, p, mode):
    return H.replay_lines(['sqrt\t%s\t%s\t%d\t%s' % (entry, H.dec_str(x, scale), p, mode)])[0]


def exact_sqrt_rounded(x, scale, p, mode, neg_result=False):
    """python oracle: sqrt(|x| * 10^-scale) rounded to p significant digits -> (int, scale)"""
    import math
    a = abs(x)
    if a == 0:
        return 0, 0
    # scale the radicand so that the integer root has p + 30 digits
    nd = len(str(a))
    e = max(0, 2 * (p + 30) - nd)
    if (e + scale) % 2:
        e += 1
    N = a * 10 ** e
    r = math.isqrt(N)
    exact = r * r == N
    d = len(str(r))
    k = d - p
    q, rem = divmod(r, 10 ** k)
    from .c06 import ref_round_pair_up
    up = ref_round_pair_up(mode, neg_result, q, rem, 10 ** k, exact)
    mag = q + 1 if up else q
    return (-mag if neg_result else mag), (e + scale) // 2 - k


def confirm(v):
    t, mdl = v['task'], v['model']
    if not mdl:
        return False, 'no model'
    def one(n):
        x = n if t['sign'] >= 0 else -n
        out = native_sqrt(t['entry'], x, t['scale'], t['p'], t['mode'])
        if out.startswith('PANIC'):
            return True, out
        if t['sign'] < 0 and t['entry'] == 'ref_sqrt_with_context' or (t['sign'] < 0 and t['entry'] == 'sqrt_with_context'):
            return out != 'None', out
        if out == 'None':
            return True, out
        ri, rs = H.parse_dec(out)
        ei, es = exact_sqrt_rounded(x, t['scale'], t['p'], t['mode'])
        if t['entry'] == 'ref_sqrt_copysign' and t['sign'] < 0:
            ei = -ei
        M = max(rs, es)
        return ri * 10 ** (M - rs) != ei * 10 ** (M - es), '%s (exact: %d@%d)' % (out, ei, es)
    ok, out = one(mdl['n'])
    if ok:
        return ok, out
    # the root contract leaves the integer root and its exactness flag free: look natively for an input of the same task
    # shape that is consistent with an exact root (perfect squares times powers of ten, outside the known-finding regions)
    for n in K.perfect_power_candidates(t['nd'], 2, mdl['n']):
        if in_known_region(n, t['scale'], t['p']):
            continue
        ok2, out2 = one(n)
        if ok2:
            mdl['n_from_solver'] = mdl['n']
            mdl['n'] = n
            return True, out2 + ' [witness found natively among perfect squares of this task shape]'
    # still nothing: the defect may need an INEXACT root with a particular digit pattern.  Scan the task shape natively:
    # every input of this digit length when there are at most 9000 of them, otherwise a spread plus the neighbours of
    # perfect powers (their roots end in long runs of zeros / nines)
    nd = t['nd']
    if nd >= 1:
        lo_n, hi_n = 10 ** (nd - 1), 10 ** nd - 1
        if hi_n - lo_n < 9000:
            scan = list(range(lo_n, hi_n + 1))
        else:
            import random as _r
            rng = _r.Random(nd * 1000003 + t['p'])
            scan = [rng.randint(lo_n, hi_n) for _ in range(3000)]
            for base in K.perfect_power_candidates(nd, 2, mdl['n'], limit=200):
                scan += [base + d for d in (-2, -1, 1, 2) if lo_n <= base + d <= hi_n]
        scan = [n for n in scan if not in_known_region(n, t['scale'], t['p'])]
        sgn = 1 if t['sign'] >= 0 else -1
        if t['entry'] in ('sqrt_with_context', 'ref_sqrt_with_context') and sgn < 0:
            scan = []
        outs = H.replay_lines(['sqrt\t%s\t%s\t%d\t%s' % (t['entry'], H.dec_str(sgn * n, t['scale']), t['p'], t['mode']) for n in scan], timeout=600) if scan else []
        for n, o in zip(scan, outs):
            bad = o.startswith('PANIC') or o == 'None'
            if not bad:
                ri, rs = H.parse_dec(o)
                ei, es = exact_sqrt_rounded(n, t['scale'], t['p'], t['mode'])
                if t['entry'] == 'ref_sqrt_copysign' and sgn < 0:
                    ei = -ei
                M = max(rs, es)
                bad = ri * 10 ** (M - rs) != ei * 10 ** (M - es)
            if bad:
                mdl['n_from_solver'] = mdl['n']
                mdl['n'] = n
                return True, o + ' [witness found by a native scan of this task shape]'
    return ok, out


def main(tier):
    rep = H.Report(PROP, tier)
    prog = H.get_program()
    rng = H.rng(PROP)
    findings = H.load_known_findings(PROP)
    ps = [1, 2, 3] if tier == 'quick' else [1, 2, 3, 4, 5, 16]
    tasks = []
    for p in ps:
        w = 2 * (p + 5)
        nds = sorted(set([1, 2, 3, 4, 5, w - 3, w - 2, w - 1, w, w + 1, w + 2, w + 3, w + 4]))
        if tier == 'thorough':
            nds = sorted(set(list(range(1, w + 5))))
        for nd in nds:
            if nd > w and nd % 2 == 1 and 'C10-parity' in KNOWN_IDS:
                continue            # known finding (a): parity defect region, excluded (its witness is replayed below)
            for scale in (range(-3, 4) if tier == 'quick' else range(-7, 8)):
                for mode in MODES:
                    if tier == 'quick' and (nd + scale + MODES.index(mode)) % 2 and nd not in (1, w):
                        continue
                    tasks.append({'entry': 'sqrt_with_context', 'nd': nd, 'scale': scale, 'p': p, 'mode': mode, 'sign': 1})
    if tier == 'thorough':
        # the default precision (100 digits): a handful of short inputs, ~2 min each (210-digit integer roots)
        for (nd, scale, mode) in [(2, 1, 'HalfEven'), (3, 0, 'Up'), (1, -1, 'Floor')]:
            tasks.append({'entry': 'sqrt_with_context', 'nd': nd, 'scale': scale, 'p': 100, 'mode': mode, 'sign': 1})
    # parity region probe: the check must still SEE the defect there (vacuity guard for the exclusion)
    if 'C10-parity' in KNOWN_IDS:
        tasks.append({'entry': 'sqrt_with_context', 'nd': 2 * (1 + 5) + 1, 'scale': 0, 'p': 1, 'mode': 'Down', 'sign': 1, 'probe': 'parity'})
    # reference variants, negative inputs, zero
    for entry in ENTRIES:
        for sign in (1, -1):
            for (nd, scale) in [(1, 0), (2, 1), (3, -1), (0, 2)]:
                for mode in ('HalfEven', 'Up', 'Floor'):
                    if entry == 'sqrt_with_context' and sign == 1 and nd:
                        continue
                    tasks.append({'entry': entry, 'nd': nd, 'scale': scale, 'p': 2, 'mode': mode, 'sign': sign})
    rep.required_labels = {'rounds the root', 'None', 'zero'}
    rep.bounds = {'precision p': ps, 'digits of the unscaled integer': 'around the 2(p+5) switch and small lengths (quick) / every length 1..2(p+5)+4 (thorough); all integers of each length symbolic',
                  'scale': '-2..2 (quick) / -7..7 (thorough)', 'modes': MODES, 'entries': ENTRIES}
    rep.assumptions = ['BigUint::sqrt contract: fresh r within the integer-sqrt bounds of the digit-count range of N, free Boolean for r*r == N (the square relation is NOT encoded)',
                       'digit counting / == / get_rounding_term by contract (C18, C02, C07)', 'BigDecimal / 4.0 and the HalfEven rounding of the scale term are executed on concrete numbers']
    rep.outside = ['num-bigint sqrt itself', 'p beyond the listed values'] + (['the known-finding regions still listed in known_findings.json: %s' % sorted(KNOWN_IDS)] if KNOWN_IDS else [])
    sys.stderr.write('[C10] %d tasks\n' % len(tasks))
    results = H.run_parallel(tasks, worker, progress=100)
    rep.add(results)
    sticky_seen = any(r.get('known_hits') for r in results)
    parity_seen = False
    for r in results:
        for v in r['violations']:
            if v['task'].get('probe') == 'parity':
                parity_seen = True
                continue
            ok, out = confirm(v)
            v['native'] = out
            if ok:
                v['replay_file'] = H.write_replay_file(PROP, v)
                rep.confirmed.append(v)
            else:
                rep.unconfirmed.append(v)
    # known findings: replay each recorded witness natively; print KNOWN-FINDING only while it still fails
    for f in findings:
        w = f['witness']
        out = native_sqrt('sqrt_with_context', int(w['int']), w['scale'], w['p'], w['mode'])
        ei, es = exact_sqrt_rounded(int(w['int']), w['scale'], w['p'], w['mode'])
        still = True
        if out not in ('None',) and not out.startswith('PANIC'):
            ri, rs = H.parse_dec(out)
            M = max(rs, es)
            still = ri * 10 ** (M - rs) != ei * 10 ** (M - es)
        seen = sticky_seen if f['id'] == 'C10-sticky' else parity_seen
        if still:
            rep.known_hits.append((dict(f, what='%s [witness %s@%d p=%d %s -> %s, exact %d@%d; symbolic check sees the region: %s]' % (f['what'], w['int'], w['scale'], w['p'], w['mode'], out, ei, es, seen)), None))
        else:
            rep.notes.append('known finding %s no longer reproduces natively' % f['id'])
    rep.extra['known_regions_seen_symbolically'] = {'sticky': sticky_seen, 'parity': parity_seen}
    rep.validated, rep.validation_mismatches = validate(prog, rng, 150 if tier == 'quick' else 1500, rep)
    return rep.finish()


def in_known_region(x, scale, p):
    """python replica of the two known-finding regions (parity, sticky) for a concrete non-negative input"""
    import math
    nd = len(str(x))
    w = 2 * (p + 5)
    if nd > w and nd % 2 == 1 and 'C10-parity' in KNOWN_IDS:
        return True
    if 'C10-sticky' not in KNOWN_IDS:
        return False
    e = max(w - nd, 0) + ((nd - scale) % 2)
    N = x * 10 ** e
    r = math.isqrt(N)
    k = len(str(r)) - p
    if k <= 0 or r * r == N:
        return False
    rem = r % 10 ** k
    return rem == 0 or 2 * rem == 10 ** k


def validate(prog, rng, n, rep=None):
    """concrete inputs through the MIR executor (with the real integer sqrt computed in python) and the native crate"""
    cases = []
    for i in range(n):
        nd = rng.randint(1, 30)
        cases.append((rng.randint(10 ** (nd - 1), 10 ** nd - 1), rng.randint(-6, 12), rng.randint(1, 12), rng.choice(MODES)))
    outs = H.replay_lines(['sqrt\tsqrt_with_context\t%s\t%d\t%s' % (H.dec_str(x, sc), p, mode) for x, sc, p, mode in cases])
    mism = []
    saved = list(E.DEFAULT_OVERRIDES)
    try:
        E.DEFAULT_OVERRIDES[:] = K.SQRT_CONTRACTS + K.EQ_CONTRACTS
        S.DIGIT_BOUND[0] = 200
        S.BITS_MODE[:] = ['uf', 0]
        for (x, sc, p, mode), nat in zip(cases, outs):
            if rep is not None and not in_known_region(x, sc, p) and nat != 'None' and not nat.startswith('PANIC'):
                ri, rs = H.parse_dec(nat)
                ei, es = exact_sqrt_rounded(x, sc, p, mode)
                M = max(rs, es)
                if ri * 10 ** (M - rs) != ei * 10 ** (M - es):
                    H.probe_violation(rep, PROP, 'native sqrt(%d@%d, p=%d, %s) = %s, exact %d@%d' % (x, sc, p, mode, nat, ei, es), {'entry': 'sqrt_with_context', 'nd': len(str(x)), 'scale': sc, 'p': p, 'mode': mode, 'sign': 1}, {'n': x}, nat)
                    continue
            m = E.Machine(prog, (), [], E.Stats(), loop_bound=6000)
            m.root_facts = []
            try:
                r = call_sqrt(m, 'sqrt_with_context', x, sc, p, mode)
                mine = H.dec_str(*r.fields[0].fields) if r.variant == 'Some' else 'None'
            except E.PathEnd as e:
                mine = 'ENGINE:%s' % e
            if mine != nat:
                mism.append({'case': [x, sc, p, mode], 'mirsym': mine, 'native': nat})
    finally:
        E.DEFAULT_OVERRIDES[:] = saved
    return len(cases), mism


def replay(path):
    v = json.load(open(path))
    ok, out = confirm(v)
    print('replay %s -> native %s ; violation reproduced: %s' % (path, out, ok))
    return 1 if ok else 0
