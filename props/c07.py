"""C07 — rounding to a precision honours the rounding mode at the p-th digit."""
import sys
import z3

from mirsym import harness as H
from mirsym import engine as E
from mirsym import summaries as S
from mirsym.engine import Agg, Ref, mk_enum
from . import common as C
from . import spec
from . import contracts as K
from .c06 import mode_val

PROP = 'C07'
MODES = spec.MODES


def ctx_val(p, mode):
    return Agg('struct', 'Context', [p, mode_val(mode)])


def spec_prec(m, n, s, L, p, mode):
    """(int, scale) of n@s (L digits) rounded to p significant digits"""
    if L > p:
        return spec.round_div_pow10(m, n, L - p, mode), s - (L - p)
    return n * 10 ** (p - L), s + (p - L)


def digits_of(m, n, D):
    """fork over the digit count of |n| (harness-side, same partition as the contract)"""
    mag = z3.If(n >= 0, n, -n)
    k = m.choose_n(D, lambda d: (mag < 10) if d == 0 else z3.And(mag >= 10 ** d, mag < 10 ** (d + 1)))
    return k + 1


def run_case(kind, D, p, mode, g=0, form=None, Lmin=1):
    n, y, s0 = z3.Ints('n y s0')

    def run(m):
        m.witness = {'n': n, 'y': y, 's0': s0}
        S.DIGIT_BOUND[0] = D + 2 if kind not in ('add_refs', 'add_refs_into') else 2 * D + abs(g) + 4
        K.DIGITS_MAX[0] = S.DIGIT_BOUND[0]
        m.assume(z3.And(s0 >= -C.SCALE_BOUND, s0 <= C.SCALE_BOUND, n > -10 ** D, n < 10 ** D))
        if Lmin > 1:
            m.assume(z3.Or(n >= 10 ** (Lmin - 1), n <= -10 ** (Lmin - 1)))
        a = C.dec(n, s0)
        if kind == 'with_precision_round':
            r = m.call('BigDecimal::with_precision_round', [Ref([a], 0), p, mode_val(mode)], ['&BigDecimal', 'NonZero<u64>', 'rounding::RoundingMode'], 'BigDecimal')
        elif kind == 'with_prec':
            r = m.call('BigDecimal::with_prec', [Ref([a], 0), p], ['&BigDecimal', 'u64'], 'BigDecimal')
        elif kind == 'round_decimal':
            r = m.call('Context::round_decimal', [Ref([ctx_val(p, mode)], 0), a], ['&Context', 'BigDecimal'], 'BigDecimal')
        elif kind == 'round_decimal_ref':
            if form == '&BigDecimal':
                arg = Ref([a], 0)
            elif form == "BigDecimalRef<'_>":
                arg = C.decref(m, n, s0)
            else:
                m.assume(s0 == 0)
                arg = Ref([n], 0)
            r = m.call('Context::round_decimal_ref::<%s>' % form, [Ref([ctx_val(p, mode)], 0), arg], ['&Context', form], 'BigDecimal')
        elif kind == 'round_with_context':
            r = m.call('BigDecimalRef::round_with_context', [Ref([C.decref(m, n, s0)], 0), Ref([ctx_val(p, mode)], 0)], ["&BigDecimalRef<'_>", '&Context'], 'BigDecimal')
        elif kind in ('add_refs', 'add_refs_into'):
            m.assume(z3.And(y > -10 ** D, y < 10 ** D))
            b = C.dec(y, s0 + g)
            fa, fb = form
            A = Ref([a], 0) if fa == '&BigDecimal' else C.decref(m, n, s0)
            B = Ref([b], 0) if fb == '&BigDecimal' else C.decref(m, y, s0 + g)
            if kind == 'add_refs':
                r = m.call('Context::add_refs::<%s, %s>' % (fa, fb), [Ref([ctx_val(p, mode)], 0), A, B], ['&Context', fa, fb], 'BigDecimal')
            else:
                dest = Ref([C.dec(12345, 7)], 0)
                m.call('Context::add_refs_into::<%s, %s>' % (fa, fb), [Ref([ctx_val(p, mode)], 0), A, B, dest], ['&Context', fa, fb, '&mut BigDecimal'], '()')
                r = dest.get()
        ri, rs = r.fields
        if kind in ('add_refs', 'add_refs_into'):
            # exact sum first (its representation is the implementation's business: compare values)
            M = max(0, g)
            total = n * 10 ** (M - 0) + y * 10 ** (M - g)
            ts = s0 + M
            L = digits_of(m, total, 2 * D + abs(g) + 2)
            ei, es = spec_prec(m, total, ts, L, p, mode)
            d = m.concretize(rs - es)
            wrong = (ri != ei * 10 ** d) if d >= 0 else (ri * 10 ** (-d) != ei)
            if m.feasible(z3.BoolVal(True)) and L > p:
                m.labels.add('sum needs more than p digits')
            return [('sum rounded to p digits (value)', wrong)]
        L = digits_of(m, n, D)
        emode = 'HalfUp' if kind == 'with_prec' else mode
        ei, es = spec_prec(m, n, s0, L, p, emode)
        if L > p:
            m.labels.add('rounds')
        elif L < p:
            m.labels.add('pads')
        return [('value rounded at the p-th digit under %s' % emode, ri != ei), ('scale', rs != es)]
    return run


def worker(t):
    prog = H.get_program()
    S.BITS_MODE[:] = ['ladder', 192] if t.get('contracts', True) else ['table', 40]
    saved = list(E.DEFAULT_OVERRIDES)
    try:
        E.DEFAULT_OVERRIDES[:] = K.DIGIT_CONTRACTS + K.ROUNDING_TERM_CONTRACTS if t.get('contracts', True) else []
        return H.explore_task(prog, run_case(t['kind'], t['D'], t['p'], t.get('mode', 'HalfUp'), t.get('g', 0), t.get('form'), t.get('Lmin', 1)), task=t,
                              loop_bound=1500, timeout_ms=60000, deadline_s=900)
    finally:
        E.DEFAULT_OVERRIDES[:] = saved


def py_spec_prec(n, s, p, mode):
    L = len(str(abs(n)))
    if L > p:
        return spec.py_round_div_pow10(n, L - p, mode), s - (L - p)
    return n * 10 ** (p - L), s + (p - L)


def native_case(t, mdl):
    n, s0 = mdl['n'], mdl['s0']
    k = t['kind']
    mode = t.get('mode', 'HalfUp')
    if k == 'with_prec':
        return 'with_prec\t%s\t%d' % (H.dec_str(n, s0), t['p'])
    if k in ('add_refs', 'add_refs_into'):
        return 'ctx_add\t%s\t%s\t%s\t%s\t%s\t%d\t%s' % (k, C.norm_ty(t['form'][0]), C.norm_ty(t['form'][1]), H.dec_str(n, s0), H.dec_str(mdl['y'], s0 + t['g']), t['p'], mode)
    form = C.norm_ty(t.get('form') or '-')
    if form == '&BigInt':
        s0 = 0
    return 'prec_round\t%s\t%s\t%s\t%d\t%s' % (k, form, H.dec_str(n, s0), t['p'], mode)


def confirm(v):
    t, mdl = v['task'], v['model']
    if not mdl:
        return False, 'no model'
    out = H.replay_lines([native_case(t, mdl)])[0]
    if out.startswith('PANIC'):
        return True, out
    ri, rs = H.parse_dec(out)
    n, s0 = mdl['n'], mdl['s0']
    if t.get('form') == '&num_bigint::BigInt':
        s0 = 0
    if t['kind'] in ('add_refs', 'add_refs_into'):
        g = t['g']
        M = max(0, g)
        total, ts = n * 10 ** M + mdl['y'] * 10 ** (M - g), s0 + M
        ei, es = py_spec_prec(total, ts, t['p'], t['mode'])
        MM = max(rs, es)
        return ri * 10 ** (MM - rs) != ei * 10 ** (MM - es), out
    ei, es = py_spec_prec(n, s0, t['p'], 'HalfUp' if t['kind'] == 'with_prec' else t['mode'])
    return not (ri == ei and rs == es), out


def known_match(v, findings):
    """is this violation an instance of a recorded known finding?"""
    for f in findings:
        if f.get('kind') == v['task']['kind'] and f.get('region') == 'negative input' and v['model'] and v['model']['n'] < 0:
            return f
    return None


def validate(prog, rng, n, rep=None):
    cases = []
    for i in range(n):
        digs = rng.randint(1, 25)
        body = rng.choice([rng.randint(10 ** (digs - 1), 10 ** digs - 1), 10 ** digs - 1, 5 * 10 ** (digs - 1), int('4' + '9' * (digs - 1)), int('5' + '0' * (digs - 1)) + 1])
        cases.append((body * rng.choice([1, 1, -1]), rng.randint(-5, 30), rng.randint(1, digs + 5), rng.choice(MODES)))
    outs = H.replay_lines(['prec_round\twith_precision_round\t-\t%s\t%d\t%s' % (H.dec_str(nn, s), p, mode) for nn, s, p, mode in cases])
    mism = []
    S.DIGIT_BOUND[0] = 60
    for (nn, s, p, mode), nat in zip(cases, outs):
        if rep is not None:
            exp = H.dec_str(*py_spec_prec(nn, s, p, mode))
            if nat != exp:
                H.probe_violation(rep, PROP, 'native with_precision_round(%d@%d, p=%d, %s) = %s, exact %s' % (nn, s, p, mode, nat, exp), {'kind': 'with_precision_round', 'D': 0, 'p': p, 'mode': mode}, {'n': nn, 's0': s, 'y': 0}, nat)
                continue
        m = E.Machine(prog, (), [], E.Stats(), loop_bound=3000)
        try:
            r = m.call('BigDecimal::with_precision_round', [Ref([C.dec(nn, s)], 0), p, mode_val(mode)], ['&BigDecimal', 'NonZero<u64>', 'rounding::RoundingMode'], 'BigDecimal')
            mine = H.dec_str(r.fields[0], r.fields[1])
        except E.Panic:
            mine = 'PANIC'
        except E.PathEnd as e:
            mine = 'ENGINE:%s' % e
        if mine != nat:
            mism.append({'case': [nn, s, p, mode], 'mirsym': mine, 'native': nat})
    return len(cases), mism


def main(tier):
    rep = H.Report(PROP, tier)
    prog = H.get_program()
    rng = H.rng(PROP)
    D = 9 if tier == 'quick' else 13
    tasks = []
    for mode in MODES:
        for p in range(1, D + 6):
            tasks.append({'kind': 'with_precision_round', 'D': D, 'p': p, 'mode': mode})
        for p in (1, 2, 3, D - 1, D, D + 2) if tier == 'quick' else range(1, D + 3):
            tasks.append({'kind': 'round_decimal', 'D': D, 'p': p, 'mode': mode})
            tasks.append({'kind': 'round_with_context', 'D': D, 'p': p, 'mode': mode})
            for form in ('&BigDecimal', "BigDecimalRef<'_>", '&num_bigint::BigInt'):
                tasks.append({'kind': 'round_decimal_ref', 'D': D, 'p': p, 'mode': mode, 'form': form})
    # long inputs (more than p+20 digits) through every precision-rounding entry point
    DL = 26 if tier == 'quick' else 32
    for mode in ('HalfEven', 'Up', 'Ceiling', 'Floor', 'HalfDown') if tier == 'quick' else MODES:
        for p in (1, 4) if tier == 'quick' else (1, 4, 9):
            tasks.append({'kind': 'with_precision_round', 'D': DL, 'p': p, 'mode': mode, 'Lmin': DL - 3})
            tasks.append({'kind': 'round_decimal', 'D': DL, 'p': p, 'mode': mode, 'Lmin': DL - 3})
            tasks.append({'kind': 'round_with_context', 'D': DL, 'p': p, 'mode': mode, 'Lmin': DL - 3})
            for form in ('&BigDecimal', "BigDecimalRef<'_>", '&num_bigint::BigInt'):
                tasks.append({'kind': 'round_decimal_ref', 'D': DL, 'p': p, 'mode': mode, 'form': form, 'Lmin': DL - 3})
    # padding far beyond the digit count (precision at the narrowing-cast boundaries) through every entry point
    for p in [100, 255, 256, 257, 258, 270, 275, 276, 300, 511, 512, 513, 1000, 65535, 65536, 65537]:
        tasks.append({'kind': 'with_prec', 'D': 3, 'p': p})
        for mode in ('HalfEven', 'Up'):
            tasks.append({'kind': 'with_precision_round', 'D': 3, 'p': p, 'mode': mode})
            tasks.append({'kind': 'round_decimal', 'D': 3, 'p': p, 'mode': mode})
            tasks.append({'kind': 'round_with_context', 'D': 3, 'p': p, 'mode': mode})
            tasks.append({'kind': 'round_decimal_ref', 'D': 3, 'p': p, 'mode': mode, 'form': ('&BigDecimal', "BigDecimalRef<'_>", '&num_bigint::BigInt')[p % 3]})
    # 18-20 digit inputs (around i64::MAX / u64::MAX) through every precision-rounding entry point
    for mode in ('HalfEven', 'Up', 'Floor', 'Down'):
        for p in (1, 2, 19):
            for kind in ('with_precision_round', 'round_decimal', 'round_with_context'):
                tasks.append({'kind': kind, 'D': 20, 'p': p, 'mode': mode, 'Lmin': 18})
            tasks.append({'kind': 'round_decimal_ref', 'D': 20, 'p': p, 'mode': mode, 'form': ('&BigDecimal', "BigDecimalRef<'_>", '&num_bigint::BigInt')[p % 3], 'Lmin': 18})
    tasks.append({'kind': 'with_prec', 'D': 20, 'p': 1, 'Lmin': 18})
    tasks.append({'kind': 'with_prec', 'D': 20, 'p': 19, 'Lmin': 18})
    # real digit-counting body (no contract) on a smaller bound
    for mode in ('HalfEven', 'Up'):
        for p in (1, 2, 5):
            tasks.append({'kind': 'with_precision_round', 'D': 6, 'p': p, 'mode': mode, 'contracts': False})
    Dp = 12 if tier == 'quick' else 30
    for p in range(1, Dp + 3):
        tasks.append({'kind': 'with_prec', 'D': Dp, 'p': p})
    Ds = 4 if tier == 'quick' else 6
    forms = [('&BigDecimal', '&BigDecimal'), ("BigDecimalRef<'_>", "BigDecimalRef<'_>"), ('&BigDecimal', "BigDecimalRef<'_>")]
    for mode in MODES if tier == 'thorough' else ('HalfEven', 'Up', 'Floor'):
        for g in (0, 1, -2, 3) if tier == 'quick' else range(-4, 5):
            for p in (1, 2, 3, 5) if tier == 'quick' else range(1, 8):
                for fi, form in enumerate(forms):
                    tasks.append({'kind': 'add_refs' if (fi + p) % 2 == 0 else 'add_refs_into', 'D': Ds, 'p': p, 'mode': mode, 'g': g, 'form': form})
    # sums of operands that are far apart (one addend entirely below the rounding position), both argument orders
    for mode in MODES:
        for g in (-9, -6, 6, 9) if tier == 'quick' else (-12, -9, -6, 6, 9, 12):
            for p in (1, 2, 3):
                form = forms[(abs(g) + p) % 3]
                tasks.append({'kind': 'add_refs' if p % 2 else 'add_refs_into', 'D': 2, 'p': p, 'mode': mode, 'g': g, 'form': form})
    rep.required_labels = {'rounds', 'pads', 'sum needs more than p digits'}
    rep.bounds = {'digits_D': D, 'with_prec_digits': Dp, 'sum_operand_digits': Ds, 'p': '1..D+5, plus padding at p = 100, 255..258, 270, 275, 276, 300, 511..513, 1000, 65535..65537 on 3-digit inputs', 'modes': MODES, 's0': 'symbolic |s0| <= 2^60'}
    rep.assumptions = ['digit counting (count_decimal_digits*) and get_rounding_term replaced by their contracts (decided for the real bodies in C18 / here at D=6 without contracts)',
                       'num-bigint digit conversion contracts as in C06']
    rep.outside = ['more than D digits', 'precision overflow panic region (|scale| near i64 limits)']
    sys.stderr.write('[C07] %d tasks\n' % len(tasks))
    rep.validated, rep.validation_mismatches = validate(prog, rng, 300 if tier == 'quick' else 3000, rep)
    results = H.run_parallel(tasks, worker, progress=200)
    rep.add(results)
    findings = H.load_known_findings(PROP)
    for r in results:
        for v in r['violations']:
            ok, out = confirm(v)
            v['native'] = out
            if ok:
                f = known_match(v, findings)
                if f:
                    if not any(k[0] is f for k in rep.known_hits):
                        rep.known_hits.append((f, v))
                    continue
                v['replay_file'] = H.write_replay_file(PROP, v)
                rep.confirmed.append(v)
            else:
                rep.unconfirmed.append(v)
    return rep.finish()


def replay(path):
    import json
    v = json.load(open(path))
    ok, out = confirm(v)
    print('replay %s -> native %s ; violation reproduced: %s' % (path, out, ok))
    return 1 if ok else 0
