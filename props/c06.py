"""C06 — rounding to a scale obeys each of the seven rounding modes."""
import os
import sys
import z3

from mirsym import harness as H
from mirsym import engine as E
from mirsym import summaries as S
from mirsym.engine import Agg, Ref, mk_enum
from . import common as C
from . import spec

PROP = 'C06'
MODES = spec.MODES


def mode_val(mode):
    return mk_enum('RoundingMode', mode)


def default_mode(prog):
    """the configured default rounding mode, obtained by executing Context::default().rounding_mode() on the dump"""
    m = E.Machine(prog, (), [], E.Stats())
    ctx = m.call('<Context as Default>::default', [], [], 'Context')
    r = m.call('Context::rounding_mode', [Ref([ctx], 0)], ['&Context'], 'RoundingMode')
    return r.variant


def exec_wsr(m, n, s, target, mode):
    a = C.dec(n, s)
    r = m.call('BigDecimal::with_scale_round', [Ref([a], 0), target, mode_val(mode)], ['&BigDecimal', 'i64', 'rounding::RoundingMode'], 'BigDecimal')
    return r.fields[0], r.fields[1]


def run_wsr(D, k, mode, fn='with_scale_round', Lmin=1):
    n, s0 = z3.Ints('n s0')

    def run(m):
        m.witness = {'n': n, 's0': s0}
        S.DIGIT_BOUND[0] = D
        m.assume(z3.And(s0 >= -C.SCALE_BOUND, s0 <= C.SCALE_BOUND, n > -10 ** D, n < 10 ** D))
        if Lmin > 1:
            m.assume(z3.Or(n >= 10 ** (Lmin - 1), n <= -10 ** (Lmin - 1)))      # only the long inputs of this task
        if fn == 'with_scale_round':
            ri, rs = exec_wsr(m, n, s0, s0 - k, mode)
        elif fn == 'round':
            r = m.call('BigDecimal::round', [Ref([C.dec(n, s0)], 0), s0 - k], ['&BigDecimal', 'i64'], 'BigDecimal')
            ri, rs = r.fields
        if k >= 1:
            exp = spec.round_div_pow10(m, n, k, mode)
            if m.feasible(z3.And(n != 0, z3.If(n >= 0, n, -n) < 10 ** (k - 1))):
                m.labels.add('target left of the leading digit')
        else:
            exp = n * 10 ** (-k)
            m.labels.add('extension')
        return [('rounded value under %s' % mode, ri != exp), ('result carries the requested scale', rs != s0 - k)]
    return run


def run_with_scale(k):
    """with_scale == rounding Down, for unbounded integers (no digit vector is materialised)"""
    n, s0 = z3.Ints('n s0')

    def run(m):
        m.witness = {'n': n, 's0': s0}
        m.assume(z3.And(s0 >= -C.SCALE_BOUND, s0 <= C.SCALE_BOUND))
        r = m.call('BigDecimal::with_scale', [Ref([C.dec(n, s0)], 0), s0 - k], ['&BigDecimal', 'i64'], 'BigDecimal')
        ri, rs = r.fields
        exp = spec.round_div_pow10(m, n, k, 'Down') if k >= 1 else n * 10 ** (-k)
        return [('with_scale truncates (== Down)', ri != exp), ('scale', rs != s0 - k)]
    return run


def run_round_pair(mode, sign):
    l, r = z3.Ints('l r')
    tz = z3.Bool('tz')

    def run(m):
        m.witness = {'l': l, 'r': r, 'tz': tz}
        m.assume(z3.And(l >= 0, l <= 9, r >= 0, r <= 9))
        out = m.call('RoundingMode::round_pair', [Ref([mode_val(mode)], 0), mk_enum('Sign', sign), Agg('tuple', '()', [l, r]), tz],
                     ['&rounding::RoundingMode', 'num_bigint::Sign', '(u8, u8)', 'bool'], 'u8')
        exp = z3.If(spec.round_up_cond(mode, sign == 'Minus', l, r, 10, tz), l + 1, l)
        return [('digit pair table', out != exp)]
    return run


def run_round_u32(mode, sign, at):
    v = z3.Int('v')
    tz = z3.Bool('tz')

    def run(m):
        m.witness = {'v': v, 'tz': tz}
        p = 10 ** at
        m.assume(z3.And(v >= 0, v < 2 ** 32))
        q, r = m.fresh('uq'), m.fresh('ur')
        m.assume(z3.And(v == q * p + r, r >= 0, r < p, q >= 0))
        m.assume((q + 1) * p < 2 ** 32)    # no overflow of the returned u32 (outside the claim otherwise)
        out = m.call('RoundingMode::round_u32', [Ref([mode_val(mode)], 0), at, mk_enum('Sign', sign), v, tz],
                     ['&rounding::RoundingMode', 'NonZero<u8>', 'num_bigint::Sign', 'u32', 'bool'], 'u32')
        exp = z3.If(spec.round_up_cond(mode, sign == 'Minus', q, r, p, tz), q + 1, q) * p
        return [('round_u32', out != exp)]
    return run


def worker(p):
    prog = H.get_program()
    S.BITS_MODE[:] = ['ladder', 192]        # exact bit-length facts (the pinned code of this property never asks for bits() of a symbolic integer; rewrites might)
    k = p['kind']
    if k in ('wsr', 'round'):
        run = run_wsr(p['D'], p['k'], p['mode'], 'with_scale_round' if k == 'wsr' else 'round', p.get('Lmin', 1))
    elif k == 'with_scale':
        run = run_with_scale(p['k'])
    elif k == 'pair':
        run = run_round_pair(p['mode'], p['sign'])
    else:
        run = run_round_u32(p['mode'], p['sign'], p['at'])
    return H.explore_task(prog, run, task=p, loop_bound=1500, timeout_ms=60000, deadline_s=900)


def confirm(v, dmode):
    t, mdl = v['task'], v['model']
    if not mdl:
        return False, 'no model'
    k = t['kind']
    if k == 'kernel':
        from . import kani_e2
        return kani_e2.check_line(mdl['line'])
    if k in ('wsr', 'round', 'with_scale'):
        n, s0 = mdl['n'], mdl['s0']
        kk = t['k']
        mode = t.get('mode', 'Down') if k != 'round' else dmode
        if k == 'wsr':
            line = 'with_scale_round\t%s\t%d\t%s' % (H.dec_str(n, s0), s0 - kk, mode)
        elif k == 'round':
            line = 'round\t%s\t%d' % (H.dec_str(n, s0), s0 - kk)
        else:
            line = 'with_scale\t%s\t%d' % (H.dec_str(n, s0), s0 - kk)
        out = H.replay_lines([line])[0]
        if out.startswith('PANIC'):
            return True, out
        ri, rs = H.parse_dec(out)
        exp = spec.py_round_div_pow10(n, kk, mode) if kk >= 1 else n * 10 ** (-kk)
        return not (ri == exp and rs == s0 - kk), out
    if k == 'pair':
        line = 'round_pair\t%s\t%s\t%d\t%d\t%s' % (t['mode'], t['sign'], mdl['l'], mdl['r'], 'true' if mdl['tz'] else 'false')
        out = H.replay_lines([line])[0]
        exp = ref_round_pair(t['mode'], t['sign'], mdl['l'], mdl['r'], bool(mdl['tz']))
        return out != str(exp), out
    line = 'round_u32\t%s\t%s\t%d\t%d\t%s' % (t['mode'], t['sign'], t['at'], mdl['v'], 'true' if mdl['tz'] else 'false')
    out = H.replay_lines([line])[0]
    p = 10 ** t['at']
    q, r = divmod(mdl['v'], p)
    up = ref_round_pair_up(t['mode'], t['sign'] == 'Minus', q, r, p, bool(mdl['tz']))
    return out != str((q + 1) * p if up else q * p), out


def ref_round_pair_up(mode, neg, q, r, p, rest_zero):
    exact = r == 0 and rest_zero
    if mode == 'Up':
        return not exact
    if mode == 'Down':
        return False
    if mode == 'Ceiling':
        return (not neg) and not exact
    if mode == 'Floor':
        return neg and not exact
    above = 2 * r > p or (2 * r == p and not rest_zero)
    tie = 2 * r == p and rest_zero
    if mode == 'HalfUp':
        return above or tie
    if mode == 'HalfDown':
        return above
    return above or (tie and q % 2 == 1)


def ref_round_pair(mode, sign, l, r, tz):
    return l + 1 if ref_round_pair_up(mode, sign == 'Minus', l, r, 10, tz) else l


def validate(prog, rng, n, dmode, rep=None):
    cases = []
    for i in range(n):
        digs = rng.randint(1, 25)
        body = rng.choice([rng.randint(10 ** (digs - 1), 10 ** digs - 1), 10 ** digs - 1, 5 * 10 ** (digs - 1), 10 ** (digs - 1),
                           int('4' + '9' * (digs - 1)), int('5' + '0' * (digs - 1)) + 1])
        nn = body * rng.choice([1, -1])
        s = rng.randint(-5, 30)
        k = rng.randint(-3, digs + 3)
        mode = rng.choice(MODES)
        cases.append((nn, s, k, mode))
    outs = H.replay_lines(['with_scale_round\t%s\t%d\t%s' % (H.dec_str(nn, s), s - k, mode) for nn, s, k, mode in cases])
    mism = []
    S.DIGIT_BOUND[0] = 60
    for (nn, s, k, mode), nat in zip(cases, outs):
        if rep is not None:
            exp = H.dec_str(spec.py_round_div_pow10(nn, k, mode) if k >= 1 else nn * 10 ** (-k), s - k)
            if nat != exp:
                H.probe_violation(rep, PROP, 'native with_scale_round(%d@%d -> scale %d, %s) = %s, exact %s' % (nn, s, s - k, mode, nat, exp), {'kind': 'wsr', 'D': 0, 'k': k, 'mode': mode}, {'n': nn, 's0': s}, nat)
                continue
        m = E.Machine(prog, (), [], E.Stats(), loop_bound=3000)
        try:
            ri, rs = exec_wsr(m, nn, s, s - k, mode)
            mine = H.dec_str(ri, rs)
        except E.Panic:
            mine = 'PANIC'
        except E.PathEnd as e:
            mine = 'ENGINE:%s' % e
        if mine != nat:
            mism.append({'case': [nn, s, k, mode], 'mirsym': mine, 'native': nat})
    return len(cases), mism


def main(tier):
    rep = H.Report(PROP, tier)
    prog = H.get_program()
    rng = H.rng(PROP)
    dmode = default_mode(prog)
    D = 12 if tier == 'quick' else 20
    tasks = []
    for mode in MODES:
        for k in range(-3, D + 4):
            tasks.append({'kind': 'wsr', 'D': D, 'k': k, 'mode': mode})
    for k in range(-3, (D if tier == 'quick' else 12) + 4):
        tasks.append({'kind': 'round', 'D': D if tier == 'quick' else 12, 'k': k, 'mode': dmode})
    # truncating re-scaling works on unbounded integers and costs milliseconds per scale difference: every difference in a
    # wide window plus the narrowing-cast boundaries (u8/u16 of a scale difference: 256.., 512.., 65536..)
    ws_ks = sorted(set(list(range(-300, 1101)) + [2 ** j + d for j in range(8, 17) for d in (-1, 0, 1, 19, 20)] + [-590, -1000] + ([5000, 70000] if tier == 'thorough' else [])))
    for k in ws_ks:
        tasks.append({'kind': 'with_scale', 'k': k})
    # rounding re-scaling far to the left of a short number (everything is rounded away: result 0 or one unit), same boundaries
    for mode in MODES:
        for k in list(range(4, 46)) + [255, 256, 257, 270, 275, 276, 511, 512, 513, 531, 1000, 65535, 65536, 65537]:
            tasks.append({'kind': 'wsr', 'D': 3, 'k': k, 'mode': mode})
    for mode in MODES:
        for sign in ('Minus', 'NoSign', 'Plus'):
            tasks.append({'kind': 'pair', 'mode': mode, 'sign': sign})
            for at in range(1, 10):
                tasks.append({'kind': 'u32', 'mode': mode, 'sign': sign, 'at': at})
    # D-digit inputs with the number of discarded digits at the 10^18 / 10^19 / 10^20 boundaries of i64 / u64 powers of ten
    for mode in MODES:
        for k in (D + 4, D + 5, 17, 18, 19, 20, 21, 22, 38, 39, 40):
            if k > D + 3:
                tasks.append({'kind': 'wsr', 'D': D, 'k': k, 'mode': mode})
    # 19/20-digit inputs (around i64::MAX / u64::MAX) losing 17..21 digits: where a native-integer fast path would sit
    for mode in MODES:
        for k in (18, 19, 20) if tier == 'quick' else (17, 18, 19, 20, 21):
            tasks.append({'kind': 'wsr', 'D': 20, 'k': k, 'mode': mode, 'Lmin': 18})
    tasks.sort(key=lambda t: -(t.get('k', 0) if t['kind'] in ('wsr', 'round') else -100))
    rep.required_labels = {'extension', 'target left of the leading digit'}
    rep.bounds = {'digits_D': D, 'k (digits discarded)': '-3..D+3', 'modes': MODES, 'default_mode_in_dump': dmode,
                  'n': 'every integer with at most D digits (digit vector of each length 1..D, symbolic digits); with_scale: unbounded integers',
                  's0': 'symbolic, |s0| <= 2^60', 'round_pair': 'all (mode, sign, l, r, tail flag)', 'round_u32': 'at_digit 1..9, all u32 whose rounded value fits u32'}
    rep.assumptions = ['to_radix_le / from_radix_le / BigInt::new relate an integer to its decimal digit vector (num-bigint contract)']
    rep.outside = ['more than D digits for with_scale_round/round', '|scale| > 2^60', 'round_u32 results that overflow u32']
    sys.stderr.write('[C06] %d tasks, default mode %s\n' % (len(tasks), dmode))
    rep.validated, rep.validation_mismatches = validate(prog, rng, 300 if tier == 'quick' else 3000, dmode, rep)
    results = H.run_parallel(tasks, worker, progress=100)
    rep.add(results)
    if tier == 'thorough' or os.environ.get('VERIF_E2') == '1':
        # E2: the same two public kernels decided independently by Kani/CBMC over the compiled code (cross-check of E1)
        from . import kani_e2
        info = kani_e2.run(rep, PROP)
        sys.stderr.write('[C06] E2 (Kani): %s\n' % info.get('status'))
    for r in results:
        for v in r['violations']:
            ok, out = confirm(v, dmode)
            v['native'] = out
            if ok:
                v['replay_file'] = H.write_replay_file(PROP, v)
                rep.confirmed.append(v)
            else:
                rep.unconfirmed.append(v)
    return rep.finish()


def replay(path):
    import json
    v = json.load(open(path))
    ok, out = confirm(v, default_mode(H.get_program()))
    print('replay %s -> native %s ; violation reproduced: %s' % (path, out, ok))
    return 1 if ok else 0
