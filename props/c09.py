"""C09 — remainder satisfies the truncated-division identity exactly."""
import sys
import z3

from mirsym import harness as H
from mirsym import engine as E
from mirsym import summaries as S
from . import common as C
from . import c01

PROP = 'C09'
TYPES = ['BigDecimal', '&BigDecimal']


def overloads(prog):
    out = []
    for lt, rt, path, d in C.discover_overloads(prog, 'std::ops::Rem', 'rem', C.DEC_FORMS + C.BIGINT_FORMS, C.DEC_FORMS + C.BIGINT_FORMS):
        out.append({'op': '%', 'trait': 'Rem', 'lhs': lt, 'rhs': rt, 'path': path, 'assign': False})
    for lt, rt, path, d in C.discover_overloads(prog, 'std::ops::RemAssign', 'rem_assign', ['BigDecimal'], C.DEC_FORMS + C.BIGINT_FORMS, assign=True):
        out.append({'op': '%', 'trait': 'RemAssign', 'lhs': '&mut BigDecimal', 'rhs': rt, 'path': path, 'assign': True})
    return out


def trunc_rem(a, b):
    q = abs(a) // abs(b)
    if (a < 0) != (b < 0):
        q = -q
    return a - q * b


def run_rem(ov, ga, gb, divisor):
    """divisor: 'sym' (y symbolic non-zero, UF oracle) | 'zero' | int (concrete y, linear oracle)"""
    x, yv, s0 = z3.Ints('x y s0')

    def run(m):
        y = yv if divisor in ('sym', 'zero') else divisor
        m.witness = {'x': x, 'y': y, 's0': s0}
        m.assume(z3.And(s0 >= -C.SCALE_BOUND, s0 <= C.SCALE_BOUND))
        if divisor == 'sym':
            m.assume(yv != 0)
        elif divisor == 'zero':
            m.assume(yv == 0)
        try:
            ri, rs = c01.call_binop(m, ov, x, s0 + ga, y, s0 + gb)
        except E.Panic as p:
            if divisor == 'zero':
                m.labels.add('zero divisor panics')
                return []
            raise
        if divisor == 'zero':
            return [('zero divisor must panic', True)]
        M = max(ga, gb)
        xs, ys = x * 10 ** (M - ga), y * 10 ** (M - gb)
        obl = [('result scale is the larger scale', rs != s0 + M)]
        if divisor == 'sym':
            obl.append(('remainder of the aligned integers (uninterpreted trem)', ri != E.TREM(xs, ys)))
            m.labels.add('symbolic divisor')
        else:
            q, r = z3.Ints('spec_q spec_r')
            ays = abs(ys)
            m.assume(z3.And(xs == q * ys + r, z3.If(xs >= 0, z3.And(r >= 0, r < ays), z3.And(r <= 0, -r < ays))))
            obl.append(('a - b*trunc(a/b)', ri != r))
            obl.append(('|r| < |b| and sign follows a', z3.Not(z3.And(z3.If(ri >= 0, ri, -ri) < ays, z3.Or(ri == 0, (ri > 0) == (x > 0))))))
            m.labels.add('concrete divisor')
        return obl
    return run


def worker(params):
    prog = H.get_program()
    S.BITS_MODE[:] = ['ladder', 192]        # exact bit-length facts (the pinned code of this property never asks for bits() of a symbolic integer; rewrites might)
    return H.explore_task(prog, run_rem(params['ov'], params['ga'], params['gb'], params['div']), task=params,
                          loop_bound=800, timeout_ms=60000, deadline_s=600, panic_is_violation=True)


def confirm(v):
    t, mdl = v['task'], v['model']
    if not mdl:
        return False, 'no model'
    ov = t['ov']
    x, y, s0 = mdl['x'], mdl['y'], mdl['s0']
    sa, sb = s0 + t['ga'], s0 + t['gb']
    out = c01.native_binop(ov, x, sa, y, sb)
    if y == 0:
        return (not out.startswith('PANIC')), out
    if out.startswith('PANIC'):
        return True, out
    ri, rs = H.parse_dec(out)
    M = max(sa, sb)
    exp = trunc_rem(x * 10 ** (M - sa), y * 10 ** (M - sb))
    return not (rs == M and ri == exp), out


def validate(prog, ovs, rng, n, rep=None):
    cases = []
    for i in range(n):
        ov = rng.choice(ovs)
        x = rng.choice([0, 1, -1, 7, -7, 100, 12345, -10 ** 21, rng.randint(-10 ** 30, 10 ** 30)])
        y = rng.choice([1, -1, 3, -3, 10, 1000, 7 * 10 ** 19, rng.randint(1, 10 ** 12), -rng.randint(1, 10 ** 12)])
        sa, sb = rng.choice([0, 1, 3, -2, 19, 20, 25]), rng.choice([0, 1, 3, -2, 19, 20, 25])
        cases.append((ov, x, sa, y, sb))
    native = H.replay_lines(['\t'.join(['binop', ov['trait'], C.norm_ty(ov['lhs']), C.norm_ty(ov['rhs']), H.dec_str(x, sa), H.dec_str(y, sb)])
                             for ov, x, sa, y, sb in cases])
    mism = []
    for (ov, x, sa, y, sb), nat in zip(cases, native):
        if rep is not None:
            M = max(sa, sb)
            exp = H.dec_str(trunc_rem(x * 10 ** (M - sa), y * 10 ** (M - sb)), M)
            if nat != exp:
                H.probe_violation(rep, PROP, 'native (%d@%d) %% (%d@%d) via %s gives %s, exact %s' % (x, sa, y, sb, ov['path'], nat, exp), {'ov': ov, 'ga': sa, 'gb': sb, 'div': 'probe'}, {'x': x, 'y': y, 's0': 0}, nat)
                continue
        m = E.Machine(prog, (), [], E.Stats(), loop_bound=2000)
        try:
            ri, rs = c01.call_binop(m, ov, x, sa, y, sb)
            mine = H.dec_str(ri, rs)
        except E.Panic:
            mine = 'PANIC'
        except E.PathEnd as e:
            mine = 'ENGINE:%s' % e
        if mine != nat and not (mine == 'PANIC' and nat.startswith('PANIC')):
            mism.append({'overload': ov['path'], 'inputs': [x, sa, y, sb], 'mirsym': mine, 'native': nat})
    return len(cases), mism


def main(tier):
    rep = H.Report(PROP, tier)
    prog = H.get_program()
    rng = H.rng(PROP)
    ovs = overloads(prog)
    gaps = sorted(set(c01.gaps_for(tier, rng)) | set(range(0, 1101)) | {2 ** k + d for k in range(8, 13) for d in (-1, 0, 1, 19, 20)})
    divisors = [1, -1, 2, -3, 7, 10, -10, 25, 50] if tier == 'quick' else sorted(set(list(range(1, 151)) + [-d for d in range(1, 151)] + [997, -997, 10 ** 19 + 1, 2 ** 64 - 1, -(2 ** 64 + 1)]))
    tasks = []
    for ov in ovs:
        for g in gaps:
            for ga, gb in ((0, g), (g, 0)) if g else ((0, 0),):
                tasks.append({'ov': ov, 'ga': ga, 'gb': gb, 'div': 'sym'})
        for g in [0, 1, 3, 19, 20, 21] + ([45, 590] if tier == 'thorough' else []):
            for ga, gb in ((0, g), (g, 0)) if g else ((0, 0),):
                tasks.append({'ov': ov, 'ga': ga, 'gb': gb, 'div': 'zero'})
                for dv in divisors:
                    tasks.append({'ov': ov, 'ga': ga, 'gb': gb, 'div': dv})
    rep.required_labels = {'zero divisor panics', 'symbolic divisor', 'concrete divisor'}
    rep.bounds = {'overloads_discovered_in_dump': [o['path'] for o in ovs], 'scale_gaps': gaps, 'concrete_divisors': divisors,
                  'x': 'unbounded integer', 'y': 'unbounded non-zero integer (uninterpreted remainder) or a listed concrete divisor', 's0': '|s0| <= 2^60 symbolic'}
    rep.assumptions = ['BigInt % BigInt is truncated remainder (sign of dividend, |r|<|d|, independent of the divisor sign): trusted contract of num-bigint, modelled by an uninterpreted function for symbolic divisors and by the linear definition for concrete divisors']
    rep.outside = ['|scale| > 2^60', 'gaps not listed']
    sys.stderr.write('[C09] %d overloads, %d tasks\n' % (len(ovs), len(tasks)))
    rep.validated, rep.validation_mismatches = validate(prog, ovs, rng, 200 if tier == 'quick' else 2000, rep)
    results = H.run_parallel(tasks, worker, progress=2000)
    rep.add(results)
    for r in results:
        for v in r['violations']:
            ok, out = confirm(v)
            v['native'] = out
            if ok:
                v['replay_file'] = H.write_replay_file(PROP, v)
                rep.confirmed.append(v)
            else:
                rep.unconfirmed.append(v)
    return rep.finish()


def replay(path):
    import json
    v = json.load(open(path))
    ok, out = confirm(v)
    print('replay %s -> native %s ; violation reproduced: %s' % (path, out, ok))
    return 1 if ok else 0
