"""Textbook definitions used as oracles (written over z3 Int terms / python ints)."""
import z3

MODES = ['Up', 'Down', 'Ceiling', 'Floor', 'HalfUp', 'HalfDown', 'HalfEven']


def round_up_cond(mode, neg, q, r, p, rest_zero=True):
    """should the magnitude q (with discarded part r/p, plus something positive iff not rest_zero) be incremented?
    neg, rest_zero: python bool or z3 Bool;  q, r: Int terms; p: python int (even, = 10^k)"""
    Z = lambda b: z3.BoolVal(b) if isinstance(b, bool) else b
    neg, rest_zero = Z(neg), Z(rest_zero)
    exact = z3.And(r == 0, rest_zero)
    if mode == 'Up':
        return z3.Not(exact)
    if mode == 'Down':
        return z3.BoolVal(False)
    if mode == 'Ceiling':
        return z3.And(z3.Not(neg), z3.Not(exact))
    if mode == 'Floor':
        return z3.And(neg, z3.Not(exact))
    above_half = z3.Or(2 * r > p, z3.And(2 * r == p, z3.Not(rest_zero)))
    tie = z3.And(2 * r == p, rest_zero)
    if mode == 'HalfUp':
        return z3.Or(above_half, tie)
    if mode == 'HalfDown':
        return above_half
    if mode == 'HalfEven':
        return z3.Or(above_half, z3.And(tie, q % 2 == 1))
    raise ValueError(mode)


def round_div_pow10(m, n, k, mode, tag='s'):
    """n rounded to a multiple of 10^k (k >= 1), divided by 10^k, under `mode` — fresh q, r are assumed (they always exist)"""
    p = 10 ** k
    q, r = m.fresh(tag + 'q'), m.fresh(tag + 'r')
    a = z3.If(n >= 0, n, -n)
    m.assume(z3.And(a == q * p + r, r >= 0, r < p, q >= 0))
    mag = z3.If(round_up_cond(mode, n < 0, q, r, p), q + 1, q)
    return z3.If(n < 0, -mag, mag)


def py_round_div_pow10(n, k, mode):
    p = 10 ** k
    a = abs(n)
    q, r = divmod(a, p)
    neg = n < 0
    exact = r == 0
    if mode == 'Up':
        up = not exact
    elif mode == 'Down':
        up = False
    elif mode == 'Ceiling':
        up = (not neg) and not exact
    elif mode == 'Floor':
        up = neg and not exact
    elif mode == 'HalfUp':
        up = 2 * r >= p
    elif mode == 'HalfDown':
        up = 2 * r > p
    else:
        up = 2 * r > p or (2 * r == p and q % 2 == 1)
    mag = q + 1 if up else q
    return -mag if neg else mag
