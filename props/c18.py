"""C18 — representation accessors and canonical form are faithful."""
import sys
import z3

from mirsym import harness as H
from mirsym import engine as E
from mirsym import summaries as S
from mirsym.engine import Agg, Ref, mk_enum
from . import common as C

PROP = 'C18'


def sign_term(x):
    """variant name expected for integer term x on the current path is decided by forking in the harness"""
    return None


def run_accessors(which):
    x, s = z3.Ints('x s')

    def run(m):
        m.witness = {'x': x, 's': s}
        m.assume(z3.And(s >= -2 ** 63, s < 2 ** 63))
        obl = []
        if which == 'constructors':
            r = m.call('BigDecimal::new', [x, s], ['num_bigint::BigInt', 'i64'], 'BigDecimal')
            obl.append(('new stores digits and scale', z3.Or(r.fields[0] != x, r.fields[1] != s)))
            r = m.call('BigDecimal::from_bigint', [x, s], ['num_bigint::BigInt', 'i64'], 'BigDecimal')
            obl.append(('from_bigint stores digits and scale', z3.Or(r.fields[0] != x, r.fields[1] != s)))
            u = z3.Int('u')
            m.witness['u'] = u
            m.assume(u >= 0)
            r = m.call('BigDecimal::from_biguint', [u, s], ['num_bigint::BigUint', 'i64'], 'BigDecimal')
            obl.append(('from_biguint stores digits and scale', z3.Or(r.fields[0] != u, r.fields[1] != s)))
            return obl
        a = C.dec(x, s)
        if which == 'value_accessors':
            r = m.call('BigDecimal::fractional_digit_count', [Ref([a], 0)], ['&BigDecimal'], 'i64')
            obl.append(('fractional_digit_count == scale', r != s))
            r = m.call('BigDecimal::as_bigint_and_exponent', [Ref([a], 0)], ['&BigDecimal'], '(BigInt, i64)')
            obl.append(('as_bigint_and_exponent', z3.Or(r.fields[0] != x, r.fields[1] != s)))
            r = m.call('BigDecimal::as_bigint_and_scale', [Ref([a], 0)], ['&BigDecimal'], '(Cow<BigInt>, i64)')
            cow = r.fields[0]
            inner = S.deref(cow.fields[0]) if isinstance(cow, Agg) else S.deref(cow)
            obl.append(('as_bigint_and_scale', z3.Or(inner != x, r.fields[1] != s)))
            r = m.call('BigDecimal::into_bigint_and_scale', [C.dec(x, s)], ['BigDecimal'], '(BigInt, i64)')
            obl.append(('into_bigint_and_scale', z3.Or(r.fields[0] != x, r.fields[1] != s)))
            r = m.call('BigDecimal::into_bigint_and_exponent', [C.dec(x, s)], ['BigDecimal'], '(BigInt, i64)')
            obl.append(('into_bigint_and_exponent', z3.Or(r.fields[0] != x, r.fields[1] != s)))
            sg = m.call('BigDecimal::sign', [Ref([a], 0)], ['&BigDecimal'], 'Sign')
            exp = {'Minus': x < 0, 'NoSign': x == 0, 'Plus': x > 0}[sg.variant]
            obl.append(('sign', z3.Not(exp)))
            return obl
        if which == 'ref_view':
            r = m.call('BigDecimal::to_ref', [Ref([a], 0)], ['&BigDecimal'], 'BigDecimalRef')
            rx, rs = C.dec_fields(r)
            obl.append(('to_ref view denotes the same integer and scale', z3.Or(rx != x, rs != s)))
            sg = m.call('BigDecimalRef::sign', [Ref([r], 0)], ['&BigDecimalRef'], 'Sign')
            obl.append(('ref sign', z3.Not({'Minus': x < 0, 'NoSign': x == 0, 'Plus': x > 0}[sg.variant])))
            fc = m.call('BigDecimalRef::fractional_digit_count', [Ref([r], 0)], ['&BigDecimalRef'], 'i64')
            obl.append(('ref fractional_digit_count', fc != s))
            z = m.call('BigDecimalRef::is_zero', [Ref([r], 0)], ['&BigDecimalRef'], 'bool')
            obl.append(('ref is_zero', z != (x == 0)))
            o = m.call('BigDecimalRef::to_owned', [Ref([r], 0)], ['&BigDecimalRef'], 'BigDecimal')
            obl.append(('to_ref().to_owned() round trip', z3.Or(o.fields[0] != x, o.fields[1] != s)))
            dest = Ref([C.dec(777, 3)], 0)
            m.call('BigDecimalRef::clone_into', [Ref([r], 0), dest], ['&BigDecimalRef', '&mut BigDecimal'], '()')
            d = dest.get()
            obl.append(('clone_into', z3.Or(d.fields[0] != x, d.fields[1] != s)))
            ab = m.call('BigDecimalRef::abs', [Ref([r], 0)], ['&BigDecimalRef'], 'BigDecimalRef')
            ax, asc = C.dec_fields(ab)
            obl.append(('ref abs', z3.Or(ax != z3.If(x >= 0, x, -x), asc != s)))
            return obl
        raise AssertionError(which)
    return run


def run_digits(b, via):
    n = z3.Int('n')

    def run(m):
        m.witness = {'n': n}
        S.BITS_MODE[:] = ['fixed', b]
        if b == 0:
            m.assume(n == 0)
        else:
            m.assume(z3.And(n >= 2 ** (b - 1), n < 2 ** b))
        neg = via.endswith('neg')
        x = -n if neg else n
        if via.startswith('digits'):
            d = m.call('BigDecimal::digits', [Ref([C.dec(x, 3)], 0)], ['&BigDecimal'], 'u64')
        else:
            d = m.call('BigDecimalRef::count_digits', [Ref([C.decref(m, x, -2)], 0)], ['&BigDecimalRef'], 'u64')
        dd = m.concretize(d)
        if b == 0:
            return [('digits of zero is 1', dd != 1)]
        return [('10^(d-1) <= |n| < 10^d', z3.Not(z3.And(n >= 10 ** (dd - 1), n < 10 ** dd)))]
    return run


def run_pow10(k, fn):
    def run(m):
        m.witness = {'k': k}
        if fn == 'ten_to_the_uint':
            r = m.call('ten_to_the_uint', [k], ['u64'], 'BigUint')
        elif fn == 'ten_to_the':
            r = m.call('ten_to_the', [k], ['u64'], 'BigInt')
        else:
            r = m.call('ten_to_the_u64', [k], ['u8'], 'u64')
        return [('10^k', r != 10 ** k)]
    return run


def run_normalized(D, tz):
    n, s0 = z3.Ints('n s0')

    def run(m):
        m.witness = {'n': n, 's0': s0}
        S.DIGIT_BOUND[0] = D + tz
        S.WORD_BOUND[0] = 8
        S.BITS_MODE[:] = ['table', 4 * (D + tz) + 8]
        m.assume(z3.And(s0 >= -C.SCALE_BOUND, s0 <= C.SCALE_BOUND, n > -10 ** D, n < 10 ** D))
        x = n * 10 ** tz
        r = m.call('BigDecimal::normalized', [Ref([C.dec(x, s0)], 0)], ['&BigDecimal'], 'BigDecimal')
        ri, rs = r.fields
        if m.feasible(z3.And(n != 0, n % 10 != 0)):
            m.labels.add('strips exactly the trailing zeros')
        d = m.concretize(rs - s0) if m.feasible(n != 0) else m.concretize(rs)
        if not m.feasible(n != 0):
            return [('zero normalizes to 0 scale 0', z3.Or(ri != 0, rs != 0))]
        # value equality: ri*10^-(s0+d) == x*10^-s0
        val = (ri == x * 10 ** d) if d >= 0 else (ri * 10 ** (-d) == x)
        return [('normalized keeps the value', z3.Not(val)), ('no trailing zero digit', ri % 10 == 0)]
    return run


def run_extend(k):
    n, s0 = z3.Ints('n s0')

    def run(m):
        m.witness = {'n': n, 's0': s0}
        m.assume(z3.And(s0 >= -C.SCALE_BOUND, s0 <= C.SCALE_BOUND))
        r = m.call('BigDecimal::with_scale', [Ref([C.dec(n, s0)], 0), s0 + k], ['&BigDecimal', 'i64'], 'BigDecimal')
        r2 = m.call('BigDecimalRef::to_owned_with_scale', [Ref([C.decref(m, n, s0)], 0), s0 + k], ['&BigDecimalRef', 'i64'], 'BigDecimal')
        return [('with_scale extension multiplies by 10^k', z3.Or(r.fields[0] != n * 10 ** k, r.fields[1] != s0 + k)),
                ('to_owned_with_scale extension multiplies by 10^k', z3.Or(r2.fields[0] != n * 10 ** k, r2.fields[1] != s0 + k))]
    return run


def worker(t):
    prog = H.get_program()
    S.BITS_MODE[:] = ['ladder', 192]        # exact bit-length facts (the pinned code of this property never asks for bits() of a symbolic integer; rewrites might)
    k = t['kind']
    if k == 'acc':
        run = run_accessors(t['which'])
    elif k == 'digits':
        run = run_digits(t['b'], t['via'])
    elif k == 'pow10':
        run = run_pow10(t['k'], t['fn'])
    elif k == 'normalized':
        run = run_normalized(t['D'], t['tz'])
    else:
        run = run_extend(t['k'])
    return H.explore_task(prog, run, task=t, loop_bound=6000, timeout_ms=60000, deadline_s=900)


def confirm(v):
    t, mdl = v['task'], v['model']
    if not mdl:
        return False, 'no model'
    k = t['kind']
    if k == 'digits':
        n = mdl['n']
        x = -n if t['via'].endswith('neg') else n
        out = H.replay_lines(['digits\t%s\t%s' % (t['via'].split('_')[0], H.dec_str(x, 0))])[0]
        return out != str(len(str(abs(n)))), out
    if k == 'normalized':
        x = mdl['n'] * 10 ** t['tz']
        out = H.replay_lines(['unop\tnormalized\t%s' % H.dec_str(x, mdl['s0'])])[0]
        if out.startswith('PANIC'):
            return True, out
        ri, rs = H.parse_dec(out)
        if x == 0:
            return not (ri == 0 and rs == 0), out
        tzc = 0
        while x % 10 ** (tzc + 1) == 0:
            tzc += 1
        return not (ri == x // 10 ** tzc and rs == mdl['s0'] - tzc), out
    if k == 'extend':
        out = H.replay_lines(['with_scale\t%s\t%d' % (H.dec_str(mdl['n'], mdl['s0']), mdl['s0'] + t['k'])])[0]
        return out != H.dec_str(mdl['n'] * 10 ** t['k'], mdl['s0'] + t['k']), out
    if k == 'acc':
        x, s = mdl['x'], mdl['s']
        out = H.replay_lines(['accessors\t%s' % H.dec_str(x, s)])[0]
        exp = 'ok'
        return out != exp, out
    # ten_to_the* are crate-private: replay through the public callers that use them
    kk = t['k']
    if t['fn'] == 'ten_to_the':
        out = H.replay_lines(['with_scale\t1:0\t%d' % kk])[0]
    else:
        out = H.replay_lines(['to_owned_with_scale\t1:0\t%d' % kk])[0]
    return out != H.dec_str(10 ** kk, kk), out


def validate(prog, rng, n, native_violations=None):
    cases = [rng.choice([10 ** k, 10 ** k - 1, 10 ** k + 1, rng.randint(0, 10 ** rng.randint(1, 60))]) for k in [rng.randint(0, 300) for _ in range(n)]]
    cases += [10 ** k + d for k in range(0, 120) for d in (-2, -1, 0, 1)]
    cases = [c for c in cases if c >= 0]
    outs = H.replay_lines(['digits\tdigits\t%s' % H.dec_str(x, 0) for x in cases])
    mism = []
    for x, nat in zip(cases, outs):
        if native_violations is not None and nat != str(len(str(x))):
            # the corpus doubles as a native probe: a concrete input on which the real crate breaks the property is a
            # violation in its own right (reported as found by the probe, not by the solver)
            native_violations.append({'kind': 'native-probe', 'detail': 'digits() of %d is %s natively, exact count %d' % (x, nat, len(str(x))),
                                      'model': {'n': x}, 'task': {'kind': 'digits', 'b': x.bit_length(), 'via': 'digits'}, 'native': nat})
            continue
        m = E.Machine(prog, (), [], E.Stats(), loop_bound=6000)
        S.BITS_MODE[:] = ['uf', 0]
        try:
            mine = str(m.call('BigDecimal::digits', [Ref([C.dec(x, 0)], 0)], ['&BigDecimal'], 'u64'))
        except E.PathEnd as e:
            mine = 'ENGINE:%s' % e
        if mine != nat:
            mism.append({'n': x, 'mirsym': mine, 'native': nat})
    return len(cases), mism


def normalized_probe(rng, n, rep):
    """native probe of normalized() on integers of every width (1..12 words) with 0..40 trailing zeros"""
    cases = []
    for i in range(n):
        core = rng.choice([1, 7, 10 ** rng.randint(0, 30) + 1, rng.randint(1, 10 ** rng.randint(1, 90)), 2 ** rng.randint(1, 200) + 1, 2 ** 64 - 1, 2 ** 64 + 1])
        tz = rng.choice([0, 1, 2, 5, 19, 20, 21, 22, rng.randint(0, 40)])
        cases.append((rng.choice([1, -1]) * core * 10 ** tz, rng.choice([0, 3, -3, tz, rng.randint(-50, 50)])))
    cases += [(10 ** k, 0) for k in range(0, 60)] + [(0, 5), (0, -5)]
    outs = H.replay_lines(['unop\tnormalized\t%s' % H.dec_str(x, s) for x, s in cases])
    for (x, s), out in zip(cases, outs):
        if x == 0:
            exp = H.dec_str(0, 0)
        else:
            tzc = 0
            while x % 10 ** (tzc + 1) == 0:
                tzc += 1
            exp = H.dec_str(x // 10 ** tzc, s - tzc)
        if out != exp:
            tzc = 0
            while x and x % 10 ** (tzc + 1) == 0:
                tzc += 1
            H.probe_violation(rep, PROP, 'native normalized(%s) = %s, expected %s' % (H.dec_str(x, s), out, exp), {'kind': 'normalized', 'D': 0, 'tz': tzc}, {'n': x // 10 ** tzc if x else 0, 's0': s}, out)
    return len(cases)


def main(tier):
    rep = H.Report(PROP, tier)
    prog = H.get_program()
    rng = H.rng(PROP)
    B = 2000 if tier == 'quick' else 6000
    Kmax = 1500 if tier == 'quick' else 5000
    tasks = [{'kind': 'acc', 'which': w} for w in ('constructors', 'value_accessors', 'ref_view')]
    for b in range(0, B + 1):
        tasks.append({'kind': 'digits', 'b': b, 'via': ['digits', 'count', 'digits_neg', 'count_neg'][b % 4] if b > 64 else 'digits'})
        if b <= 64:
            tasks.append({'kind': 'digits', 'b': b, 'via': 'count_neg'})
    for k in list(range(0, Kmax + 1)) + sorted(rng.sample(range(Kmax, 20000), 5)):
        tasks.append({'kind': 'pow10', 'k': k, 'fn': 'ten_to_the_uint' if k % 3 else 'ten_to_the'})
    for k in range(0, 20):
        tasks.append({'kind': 'pow10', 'k': k, 'fn': 'ten_to_the_u64'})
    Dn = 8 if tier == 'quick' else 12
    TZ = 26 if tier == 'quick' else 45           # D + tz reaches past 2^64 and 2^96 (word-count boundaries of the unscaled integer)
    for tz in range(0, TZ + 1):
        tasks.append({'kind': 'normalized', 'D': Dn, 'tz': tz})
    # scale extension costs milliseconds per difference: every difference up to 1100 and the narrowing-cast boundaries
    for k in sorted(set(list(range(0, 1101)) + [2 ** j + d for j in range(8, 17) for d in (-1, 0, 1, 19, 20)] + ([5000, 70000] if tier == 'thorough' else []))):
        tasks.append({'kind': 'extend', 'k': k})
    rep.required_labels = {'strips exactly the trailing zeros'}
    rep.bounds = {'digits(): bit lengths': '0..%d (every integer of each bit length, symbolic)' % B, 'ten_to_the*: k': '0..%d + 5 seeded' % Kmax,
                  'normalized': 'D=%d significant digits x 0..%d trailing zeros' % (Dn, TZ), 'accessors': 'x unbounded, scale any i64'}
    rep.assumptions = ['BigUint::bits() returns the bit length (num-bigint contract)', 'ten_to_the_uint is a closed function of k: it is executed on the MIR for each k (no symbolic input exists)']
    rep.outside = ['bit lengths above the bound']
    sys.stderr.write('[C18] %d tasks\n' % len(tasks))
    probe = []
    rep.validated, rep.validation_mismatches = validate(prog, rng, 200 if tier == 'quick' else 2000, probe)
    for v in probe[:6]:
        v['replay_file'] = H.write_replay_file(PROP, v)
        rep.confirmed.append(v)
    rep.extra['native_normalized_probes'] = normalized_probe(rng, 300 if tier == 'quick' else 3000, rep)
    results = H.run_parallel(tasks, worker, progress=500)
    rep.add(results)
    for r in results:
        for v in r['violations']:
            ok, out = confirm(v)
            v['native'] = out
            if ok:
                v['replay_file'] = H.write_replay_file(PROP, v)
                rep.confirmed.append(v)
            else:
                rep.unconfirmed.append(v)
    return rep.finish()


def replay(path):
    import json
    v = json.load(open(path))
    ok, out = confirm(v)
    print('replay %s -> native %s ; violation reproduced: %s' % (path, out, ok))
    return 1 if ok else 0
