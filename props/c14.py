"""C14 — binary floats convert to decimals exactly (the f32/f64 -> decimal direction; see MANIFEST level_note for what is outside)."""
import math
import re
import struct
import sys
from fractions import Fraction

import z3

from mirsym import harness as H
from mirsym import engine as E
from mirsym import summaries as S
from mirsym.engine import Agg, Ref, mk_enum, is_sym
from . import common as C

PROP = 'C14'
FMT = S.FLOAT_FMT


def run_float(ty, exp, entry):
    """all bit patterns with exponent field `exp` (sign and fraction symbolic)"""
    ebits, mbits = FMT[ty][:2]
    bias = 2 ** (ebits - 1) - 1
    sign, frac = z3.Ints('sign frac')

    def run(m):
        m.witness = {'sign': sign, 'frac': frac}
        m.assume(z3.And(sign >= 0, sign <= 1, frac >= 0, frac < 2 ** mbits))
        sg = 1 if m.branch_bool(sign == 1) else 0
        m.assume(sign == sg)
        f = S.FloatV(ty, sg, exp, frac)
        if entry == 'try_from':
            r = m.call('<BigDecimal as TryFrom<%s>>::try_from' % ty, [f], [ty], 'Result<BigDecimal, ParseBigDecimalError>')
            ok = r.variant == 'Ok'
            val = r.fields[0] if ok else None
        else:
            r = m.call('<BigDecimal as num_traits::FromPrimitive>::from_%s' % ty, [f], [ty], 'Option<BigDecimal>')
            ok = r.variant == 'Some'
            val = r.fields[0] if ok else None
        if exp == 2 ** ebits - 1:
            m.labels.add('nan/inf rejected')
            return [('NaN and infinities are errors', ok)]
        if not ok:
            return [('finite floats convert', True)]
        ri, rs = val.fields
        sc = m.concretize(rs)
        if exp == 0:
            mant, p2 = frac, 1 - bias - mbits
            m.labels.add('subnormal/zero')
        else:
            mant, p2 = frac + 2 ** mbits, exp - bias - mbits
            m.labels.add('normal')
        smant = -mant if sg else mant
        # ri * 10^-sc == smant * 2^p2
        lhs, rhs = ri, smant
        if sc >= 0:
            rhs = rhs * 10 ** sc
        else:
            lhs = lhs * 10 ** (-sc)
        if p2 >= 0:
            rhs = rhs * 2 ** p2
        else:
            lhs = lhs * 2 ** (-p2)
        return [('decimal equals the binary value exactly', lhs != rhs)]
    return run


def run_roundtrip(exp, tz=None, sg_fixed=None):
    """to_f64(from_f64(f)) == f for all f64 with this exponent field, RELATIVE to two contracts:
    std's str::parse::<f64> returns the float nearest to the denoted value, and BigUint::to_f64 is exact on representable integers.
    What is decided: the decimal handed to those primitives is f itself, or f truncated by less than a quarter of its ulp."""
    ebits, mbits = FMT['f64'][:2]
    bias = 2 ** (ebits - 1) - 1
    sign, frac = z3.Ints('sign frac')

    def run(m):
        m.witness = {'sign': sign, 'frac': frac}
        m.assume(z3.And(sign >= 0, sign <= 1, frac >= 0, frac < 2 ** mbits))
        if sg_fixed is not None:
            m.assume(sign == sg_fixed)
        if tz is not None:
            # shard of the class: fraction fields with exactly tz trailing zero bits (tz == mbits: the zero fraction)
            if tz >= mbits:
                m.assume(frac == 0)
            else:
                odd = z3.Int('frac_odd')
                m.assume(z3.And(odd >= 0, frac == odd * 2 ** (tz + 1) + 2 ** tz))
        sg = 1 if m.branch_bool(sign == 1) else 0
        m.assume(sign == sg)
        f = S.FloatV('f64', sg, exp, frac)
        S.BITS_MODE[:] = ['model', 3]
        S.DIGIT_BOUND[0] = 60
        r = m.call('<BigDecimal as TryFrom<f64>>::try_from', [f], ['f64'], 'Result<BigDecimal, ParseBigDecimalError>')
        if r.variant != 'Ok':
            return [('finite floats convert', True)]
        d = r.fields[0]
        back = m.call('<BigDecimal as num_traits::ToPrimitive>::to_f64', [Ref([d], 0)], ['&BigDecimal'], 'Option<f64>')
        if back.variant != 'Some':
            return [('to_f64 of a converted float is Some', True)]
        v = back.fields[0]
        if exp == 0:
            mant, p2 = frac, 1 - bias - mbits
        else:
            mant, p2 = frac + 2 ** mbits, exp - bias - mbits
        if isinstance(v, float):
            m.labels.add('roundtrip: zero')
            return [('only +-0 comes back as the literal 0.0', z3.Or(mant != 0, z3.BoolVal(v != 0.0)))]
        if isinstance(v, S.BigToF64):
            # contract: exact when the integer is representable; here it must BE the float's integer value
            m.labels.add('roundtrip: integer')
            same = (v.x == mant * 2 ** p2) if p2 >= 0 else (v.x * 2 ** (-p2) == mant)
            return [('the integer handed to BigUint::to_f64 is the float itself', z3.Not(same)), ('sign restored', z3.BoolVal(v.neg != bool(sg)))]
        if isinstance(v, S.ParsedF64):
            m.labels.add('roundtrip: parsed text')
            items = v.items
            # text is <digits>e<exp>: read it back numerically
            if 101 not in [c for c in items if isinstance(c, int)]:
                return [('text handed to the parser has the form <digits>e<exp>', True)]
            k = [i for i, c in enumerate(items) if isinstance(c, int) and c == 101][0]
            digs, etxt = items[:k], items[k + 1:]
            if not all(isinstance(c, int) for c in etxt) or not digs:
                return [('exponent is concrete text', True)]
            e10 = int(''.join(chr(c) for c in etxt))
            val = None
            try:
                ids = tuple(z3.simplify(c - 48).get_id() for c in digs)
                val = getattr(m, 'radix_origin', {}).get(ids)       # the integer the engine rendered into exactly these digits
            except Exception:
                val = None
            if val is None:
                val = 0
                for c in digs:
                    val = val * 10 + (c - 48)
            # |f| = mant * 2^p2 ; parsed value = val * 10^e10 ; need 0 <= |f| - val*10^e10 < 2^(p2-2)  (a quarter ulp: the nearest float is then f)
            # scale everything to integers
            a2, a10 = max(0, -(p2 - 2)), max(0, -e10)
            F = mant * 2 ** (p2 + a2) * 10 ** a10 if p2 + a2 >= 0 else None
            V = val * 10 ** (e10 + a10) * 2 ** a2
            Q = 2 ** (p2 - 2 + a2) * 10 ** a10
            # first a DEFINITE failure (more than half an ulp below: a correctly rounding parser must return another float; such a
            # model replays natively), then the safety margin actually claimed (a violation of the margin alone that does not
            # replay leaves the check inconclusive, never silent)
            return [('parsed text is more than half an ulp away from the float: the parser cannot return it', z3.Or(F - V > 2 * Q, V - F > 2 * Q)),
                    ('parsed text is below the float by less than a quarter ulp, never above', z3.Not(z3.And(F - V >= 0, F - V < Q))),
                    ('sign restored', z3.BoolVal(v.neg != bool(sg)))]
        if isinstance(v, S.F64Quot) and isinstance(v.a, S.IntToF64) and isinstance(v.b, float):
            # `n as f64 / 10^k`: equals f when the quotient is exact in the reals (it is f) AND the first rounding is
            # exact, i.e. n is representable (a sufficient condition; a counterexample is decided by native replay)
            m.labels.add('roundtrip: machine integer over power of ten')
            ks = [k for k in range(0, 23) if float(10 ** k) == v.b]
            if not ks:
                return [('divisor is an exact power of ten', True)]
            n = v.a.x
            val_eq = (n * 2 ** (-p2) == mant * 10 ** ks[0]) if p2 < 0 else (n == mant * 2 ** p2 * 10 ** ks[0])
            repres = z3.Or([n < 2 ** 53] + [z3.And(n < 2 ** (53 + j), n % 2 ** j == 0) for j in range(1, 12)])
            return [('n as f64 / 10^k: value is f and n is exactly representable', z3.Not(z3.And(val_eq, repres))), ('sign restored', z3.BoolVal((v.neg != v.a.neg) != bool(sg)))]
        return [('to_f64 goes through an exact primitive (parse or BigUint::to_f64)', True)]
    return run


def run_to_f64(D, scale, form):
    """plumbing of to_f64 on an ARBITRARY decimal with D significant digits (symbolic) at a concrete scale: what is
    handed to the float primitives is the value itself or the value truncated to >= 25 digits (relative error < 1e-24),
    the power of ten matches, the sign is restored, infinities/zeros only where the magnitude is out of range"""
    x, sign = z3.Ints('x sign')

    def run(m):
        m.witness = {'x': x, 'sign': sign}
        m.assume(z3.And(sign >= 0, sign <= 1))
        if D == 0:
            m.assume(x == 0)
        else:
            m.assume(z3.And(x >= 10 ** (D - 1), x < 10 ** D))
        sg = 1 if m.branch_bool(sign == 1) else 0
        m.assume(sign == sg)
        S.BITS_MODE[:] = ['model', 6]
        S.DIGIT_BOUND[0] = 90
        S.FLOAT_TOKEN_MODE[0] = 'always'
        # the crate's own free fn `powi` shadows std's inherent f64::powi in name resolution: install the token summary as an override
        m.overrides.append((re.compile(r'^(?:impl_num::)?powi$|^(?:std::|core::)?f64::<impl f64>::powi$'), S.f64_powi))
        sx = -x if sg else x
        if form == 'ref':
            back = m.call("<BigDecimalRef<'_> as num_traits::ToPrimitive>::to_f64", [Ref([C.decref(m, sx, scale)], 0)], ["&BigDecimalRef<'_>"], 'Option<f64>')
        else:
            back = m.call('<BigDecimal as num_traits::ToPrimitive>::to_f64', [Ref([C.dec(sx, scale)], 0)], ['&BigDecimal'], 'Option<f64>')
        if back.variant != 'Some':
            return [('to_f64 returns Some', True)]
        v = back.fields[0]
        neg_expected = bool(sg) and D > 0
        hi10 = D - scale            # 10^(hi10-1) <= |value| < 10^hi10

        def trunc_ok(xp, t):
            # xp must be floor(x / 10^t), t a non-negative multiple of 19, and keep >= 25 digits when anything was cut
            if t < 0 or t % 19 != 0:
                return z3.BoolVal(False)
            if t == 0:
                return xp == x
            return z3.And(xp * 10 ** t <= x, x < (xp + 1) * 10 ** t, xp >= 10 ** 24)
        if isinstance(v, float):
            if v == 0.0:
                m.labels.add('to_f64: zero')
                ok = (D == 0 and math.copysign(1.0, v) > 0) or (D > 0 and hi10 <= -323 and (math.copysign(1.0, v) < 0) == neg_expected)
                return [('a zero result only for zero or for magnitudes below the smallest subnormal, with the sign', z3.BoolVal(not ok))]
            if v in (float('inf'), float('-inf')):
                m.labels.add('to_f64: infinity')
                ok = D > 0 and hi10 - 1 >= 309 and (v < 0) == neg_expected
                return [('an infinite result only for magnitudes >= 1e309, with the sign', z3.BoolVal(not ok))]
            return [('concrete float result for a symbolic decimal', True)]
        if isinstance(v, S.BigToF64):
            m.labels.add('to_f64: integer')
            return [('scale 0: the integer itself goes to BigUint::to_f64', z3.Or(v.x != x, z3.BoolVal(scale != 0))), ('sign restored', z3.BoolVal(v.neg != neg_expected))]
        if isinstance(v, S.F64Prod):
            m.labels.add('to_f64: integer times power of ten')
            a, b = v.a, v.b
            if not (isinstance(a, S.BigToF64) and isinstance(b, S.PowiF64) and b.base == 10.0 and not is_sym(b.k)):
                return [('product of BigUint::to_f64 and powi(10.0, k)', True)]
            t = scale + b.k           # value = x * 10^-scale = (x / 10^t) * 10^k
            return [('truncated integer times the matching power of ten', z3.Not(trunc_ok(a.x, t))), ('exponent non-negative on this branch', z3.BoolVal(b.k < 0)),
                    ('sign restored', z3.BoolVal((a.neg != v.neg) != neg_expected))]
        if isinstance(v, S.ParsedF64):
            m.labels.add('to_f64: parsed text')
            items = v.items
            if 101 not in [c for c in items if isinstance(c, int)]:
                return [('text handed to the parser has the form <digits>e<exp>', True)]
            k = [i for i, c in enumerate(items) if isinstance(c, int) and c == 101][0]
            digs, etxt = items[:k], items[k + 1:]
            if not all(isinstance(c, int) for c in etxt) or not digs:
                return [('exponent is concrete text', True)]
            e10 = int(''.join(chr(c) for c in etxt))
            try:
                val = getattr(m, 'radix_origin', {}).get(tuple(z3.simplify(c - 48).get_id() for c in digs))
            except Exception:
                val = None
            if val is None:
                val = 0
                for c in digs:
                    val = val * 10 + (c - 48)
            t = scale + e10
            return [('text is the integer truncated to >= 25 digits with the matching exponent', z3.Not(trunc_ok(val, t))), ('exponent negative on this branch', z3.BoolVal(e10 >= 0)),
                    ('sign restored', z3.BoolVal(v.neg != neg_expected))]
        if isinstance(v, S.F64Quot) and isinstance(v.a, S.IntToF64) and isinstance(v.b, float):
            m.labels.add('to_f64: machine integer over power of ten')
            ok_div = 0 <= scale <= 22 and float(10 ** scale) == v.b
            return [('n as f64 / 10^scale with n the integer itself (two roundings: within the 2^-48 tolerance)', z3.Or(v.a.x != x, z3.BoolVal(not ok_div))),
                    ('sign restored', z3.BoolVal((v.neg != v.a.neg) != neg_expected))]
        return [('to_f64 goes through a float primitive', True)]
    return run


def worker(t):
    prog = H.get_program()
    if t.get('kind') == 'to_f64':
        S.BITS_MODE[:] = ['uf', 128]
        try:
            return H.explore_task(prog, run_to_f64(t['D'], t['scale'], t['form']), task=t, loop_bound=3000, timeout_ms=60000, deadline_s=600)
        finally:
            S.FLOAT_TOKEN_MODE[0] = 'auto'
    S.BITS_MODE[:] = ['uf', 128]
    if t.get('kind') == 'roundtrip':
        return H.explore_task(prog, run_roundtrip(t['exp'], t.get('tz'), t.get('sign')), task=t, loop_bound=3000, timeout_ms=60000, deadline_s=900)
    return H.explore_task(prog, run_float(t['ty'], t['exp'], t['entry']), task=t, loop_bound=3000, timeout_ms=60000, deadline_s=900)


def bits_of(t, mdl):
    ebits, mbits = FMT[t['ty']][:2]
    return (mdl['sign'] << (ebits + mbits)) | (t['exp'] << mbits) | mdl['frac']


def confirm(v):
    t, mdl = v['task'], v['model']
    if not mdl:
        return False, 'no model'
    if t.get('kind') == 'to_f64':
        x = -mdl['x'] if mdl['sign'] else mdl['x']
        out = H.replay_lines(['to_prim\t%s\tf64\t%s' % (t['form'], H.dec_str(x, t['scale']))])[0]
        return to_f64_bad(x, t['scale'], out), out
    b = bits_of(t, mdl)
    out = H.replay_lines(['from_float\t%s\t%s\t0x%x' % (t['ty'], t['entry'], b)])[0]
    if t.get('kind') == 'roundtrip':
        return roundtrip_bad(t['ty'], b, out), out
    fmt = FMT[t['ty']]
    f = struct.unpack(fmt[2], struct.pack(fmt[3], b))[0]
    if f != f or f in (float('inf'), float('-inf')):
        return out != 'Err', out
    if out in ('Err', 'None') or out.startswith('PANIC'):
        return True, out
    ri, rs = H.parse_dec(out)
    return Fraction(ri) * Fraction(10) ** (-rs) != Fraction(f), out


def to_f64_bad(x, scale, out):
    """native to_f64 of x*10^-scale printed as bits: wrong sign, an infinity/zero for an in-range magnitude, or a
    relative error above 2^-48 (normal range) / more than one subnormal step (below it)"""
    if out in ('None', 'Err') or out.startswith('PANIC') or not out.startswith('0x'):
        return True
    g = struct.unpack('<d', struct.pack('<Q', int(out, 16)))[0]
    if x == 0:
        return g != 0.0 or math.copysign(1.0, g) < 0
    if (math.copysign(1.0, g) < 0) != (x < 0):
        return True
    D = len(str(abs(x)))
    hi10 = D - scale                # 10^(hi10-1) <= |value| < 10^hi10
    if g in (float('inf'), float('-inf')):
        return hi10 <= 308
    if g == 0.0:
        return hi10 - 1 >= -323
    if abs(scale) > 5000:
        return True                  # a finite non-zero float cannot be right for such magnitudes
    v = Fraction(abs(x)) * Fraction(10) ** (-scale)
    G = Fraction(abs(g))
    step = Fraction(1, 2 ** 1074)
    if v < Fraction(1, 2 ** 1022):
        return abs(G - v) > step
    return abs(G - v) > v / 2 ** 48


def to_f64_probe(rng, n, rep):
    cases = []
    for i in range(n):
        D = rng.choice([1, 2, 15, 16, 17, 19, 20, 24, 25, 26, 39, 44, 45, 60, 100, rng.randint(1, 120)])
        x = rng.choice([10 ** (D - 1), 10 ** D - 1, rng.randint(10 ** (D - 1), 10 ** D - 1), rng.randint(10 ** (D - 1), 10 ** D - 1)]) * rng.choice([1, -1])
        s = rng.choice([0, 1, -1, 5, 22, 23, 25, -22, -23, 300, 308, 309, 324, 330, 400, -290, -308, -309, -330, D, D - 1, D + 300, D - 309, D + 323, D + 324,
                        2 ** 31 - 1, 2 ** 31, 2 ** 31 + 19, 2 ** 31 + 57, -2 ** 31, -2 ** 31 - 1, 2 ** 40, -2 ** 40, rng.randint(-340, 340), rng.randint(-340, 340)])
        cases.append((x, s, rng.choice(['val', 'ref'])))
    cases.append((0, 0, 'val'))
    cases.append((0, -5, 'ref'))
    outs = H.replay_lines(['to_prim\t%s\tf64\t%s' % (f, H.dec_str(x, s)) for x, s, f in cases])
    for (x, s, f), out in zip(cases, outs):
        if to_f64_bad(x, s, out):
            H.probe_violation(rep, PROP, 'native to_f64 of %s gives %s' % (H.dec_str(x, s), out), {'kind': 'to_f64', 'D': len(str(abs(x))) if x else 0, 'scale': s, 'form': f, 'entry': 'to_f64'},
                              {'x': abs(x), 'sign': 1 if x < 0 else 0}, out)
    return len(cases)


def roundtrip_bad(ty, b, out):
    """native to_fXX(from_fXX(bits)) must give the same bits back (-0.0 comes back as +0.0: the decimal zero has no sign)"""
    ebits, mbits = FMT[ty][:2]
    if (b >> mbits) & (2 ** ebits - 1) == 2 ** ebits - 1:
        return out != 'Err'
    if b & (2 ** (ebits + mbits) - 1) == 0:
        return out != '0x0'
    return out != '0x%x' % b


def roundtrip_probe(rng, n, rep):
    """native probe of the return trip on concrete floats of every magnitude (also those outside the symbolic bound)"""
    cases = []
    for ty in ('f64', 'f32'):
        ebits, mbits = FMT[ty][:2]
        for i in range(n):
            e = rng.choice([0, 1, 2 ** (ebits - 1) - 1, 2 ** (ebits - 1) - 5, 2 ** ebits - 2, rng.randint(0, 2 ** ebits - 2), rng.randint(0, 2 ** ebits - 2)])
            fr = rng.choice([0, 1, 2 ** mbits - 1, 2 ** (mbits - 1), rng.randint(0, 2 ** mbits - 1), rng.randint(0, 2 ** mbits - 1), rng.randint(0, 2 ** mbits - 1)])
            cases.append((ty, (rng.randint(0, 1) << (ebits + mbits)) | (e << mbits) | fr, e))
    outs = H.replay_lines(['from_float\t%s\troundtrip\t0x%x' % (ty, b) for ty, b, e in cases])
    for (ty, b, e), out in zip(cases, outs):
        if roundtrip_bad(ty, b, out):
            ebits, mbits = FMT[ty][:2]
            H.probe_violation(rep, PROP, 'native to_%s(from_%s(0x%x)) gives %s' % (ty, ty, b, out), {'kind': 'roundtrip', 'ty': ty, 'exp': e, 'entry': 'roundtrip'},
                              {'sign': b >> (ebits + mbits), 'frac': b & (2 ** mbits - 1)}, out)
    return len(cases)


def validate(prog, rng, n, rep=None):
    cases = []
    for i in range(n):
        ty = rng.choice(['f32', 'f64'])
        ebits, mbits = FMT[ty][:2]
        e = rng.choice([0, 1, 2, 2 ** (ebits - 1) - 1, 2 ** (ebits - 1), 2 ** ebits - 2, 2 ** ebits - 1, rng.randint(0, 2 ** ebits - 1)])
        fr = rng.choice([0, 1, 2 ** mbits - 1, 2 ** (mbits - 1), rng.randint(0, 2 ** mbits - 1)])
        cases.append((ty, rng.randint(0, 1), e, fr))
    lines = []
    for ty, sg, e, fr in cases:
        ebits, mbits = FMT[ty][:2]
        lines.append('from_float\t%s\ttry_from\t0x%x' % (ty, (sg << (ebits + mbits)) | (e << mbits) | fr))
    outs = H.replay_lines(lines)
    mism = []
    for (ty, sg, e, fr), nat in zip(cases, outs):
        if rep is not None:
            ebits, mbits = FMT[ty][:2]
            b = (sg << (ebits + mbits)) | (e << mbits) | fr
            f = struct.unpack(FMT[ty][2], struct.pack(FMT[ty][3], b))[0]
            if f != f or f in (float('inf'), float('-inf')):
                bad = nat != 'Err'
            else:
                bad = nat == 'Err' or nat.startswith('PANIC')
                if not bad:
                    ri, rs = H.parse_dec(nat)
                    bad = Fraction(ri) * Fraction(10) ** (-rs) != Fraction(f)
            if bad:
                H.probe_violation(rep, PROP, 'native conversion of %s bits 0x%x gives %s' % (ty, b, nat), {'ty': ty, 'exp': e, 'entry': 'try_from'}, {'sign': sg, 'frac': fr}, nat)
                continue
        m = E.Machine(prog, (), [], E.Stats(), loop_bound=3000)
        try:
            r = m.call('<BigDecimal as TryFrom<%s>>::try_from' % ty, [S.FloatV(ty, sg, e, fr)], [ty], 'Result')
            mine = H.dec_str(*r.fields[0].fields) if r.variant == 'Ok' else 'Err'
        except E.PathEnd as ex:
            mine = 'ENGINE:%s' % ex
        if mine != nat:
            mism.append({'case': [ty, sg, e, fr], 'mirsym': mine, 'native': nat})
    return len(cases), mism


def main(tier):
    rep = H.Report(PROP, tier)
    prog = H.get_program()
    rng = H.rng(PROP)
    tasks = []
    for e in range(0, 256):
        tasks.append({'ty': 'f32', 'exp': e, 'entry': 'try_from' if e % 2 == 0 or e in (0, 1, 254, 255) else 'from_primitive'})
    f64_exps = set([0, 1, 2, 3, 1021, 1022, 1023, 1024, 1025, 1074, 1075, 1076, 1077, 2044, 2045, 2046, 2047] + list(range(1000, 1100, 3)))
    if tier == 'quick':
        # exponent fields >= 1075 (non-negative power of two) cost one or two paths each: all of them, every run;
        # below that every field forks over up to 53 trailing-zero counts: boundaries + a seeded sample
        f64_exps |= set(range(1075, 2048)) | set(rng.sample(range(0, 1075), 150))
    else:
        f64_exps = set(range(0, 2048))
    for e in sorted(f64_exps):
        tasks.append({'ty': 'f64', 'exp': e, 'entry': 'try_from' if e % 3 else 'from_primitive'})
    for e in (0, 255):
        tasks.append({'ty': 'f32', 'exp': e, 'entry': 'from_primitive'})
    for e in (0, 2047):
        tasks.append({'ty': 'f64', 'exp': e, 'entry': 'try_from'})
    # return trip to_f64(from_f64(f)) == f, relative to the parse / BigUint::to_f64 contracts
    # f64 only (to_f32 goes through a different, lossy path: outside). Exponent fields >= 1075 (integers >= 2^52) take one
    # task each; below that a class is sharded by sign and by the number of trailing zero bits of the fraction (53 x 2 tasks).
    # Measured: classes >= 900 decide in 20-60 s of 16 cores each on an idle machine (920 went unknown under load: only >= 950 is registered); below ~700 z3 starts answering unknown (400-digit
    # dividends through up to 40 chained divisions): those classes are outside the symbolic claim and covered by the native probe.
    for e in range(1075, 2047):
        tasks.append({'kind': 'roundtrip', 'ty': 'f64', 'exp': e, 'entry': 'roundtrip'})
    if tier == 'quick':
        rt_sharded = set(range(1064, 1075)) | {1023, 1019} | set(rng.sample(range(1000, 1064), 1))
    else:
        rt_sharded = set(range(1000, 1075)) | {950}
    for e in sorted(rt_sharded):
        for tz in range(53):
            for sg in (0, 1):
                tasks.append({'kind': 'roundtrip', 'ty': 'f64', 'exp': e, 'tz': tz, 'sign': sg, 'entry': 'roundtrip'})
    for sg in (0, 1):
        tasks.append({'kind': 'roundtrip', 'ty': 'f64', 'exp': 0, 'tz': 52, 'sign': sg, 'entry': 'roundtrip'})
    # to_f64 of ARBITRARY decimals: D symbolic digits at a concrete scale, both receiver forms (plumbing up to the float primitives)
    Ds = [0, 1, 2, 15, 16, 17, 18, 19, 20, 24, 25, 26, 27, 43, 44, 45, 46, 63, 64, 65, 82] if tier == 'quick' else list(range(0, 86))
    I31 = 2 ** 31
    scales = sorted(set([0, 1, 2, 5, 18, 19, 20, 22, 23, 25, 38, 44, 100, 290, 308, 309, 323, 324, 325, 330, 400, 1000, -1, -2, -18, -19, -20, -22, -23, -25, -38, -100, -290, -307, -308, -309, -310, -400,
                         I31 - 39, I31 - 20, I31 - 2, I31 - 1, I31, I31 + 1, I31 + 18, I31 + 19, I31 + 20, I31 + 37, I31 + 38, I31 + 39, I31 + 57, -I31 + 1, -I31, -I31 - 1, -I31 - 20, 2 ** 40, -2 ** 40, 2 ** 62, -2 ** 62]
                        + ([rng.randint(-400, 400) for _ in range(10)] if tier == 'quick' else list(range(-340, 341, 7)))))
    for D in Ds:
        for sc in scales:
            tasks.append({'kind': 'to_f64', 'D': D, 'scale': sc, 'form': 'val' if (D + sc) % 2 == 0 or tier == 'quick' and False else 'ref', 'entry': 'to_f64'})
            if tier != 'quick' or sc in (0, 1, -1, I31, -I31):
                tasks.append({'kind': 'to_f64', 'D': D, 'scale': sc, 'form': 'ref' if (D + sc) % 2 == 0 else 'val', 'entry': 'to_f64'})
    rep.required_labels = {'nan/inf rejected', 'subnormal/zero', 'normal', 'roundtrip: integer', 'roundtrip: parsed text', 'roundtrip: zero',
                           'to_f64: zero', 'to_f64: infinity', 'to_f64: integer', 'to_f64: integer times power of ten', 'to_f64: parsed text'}
    rep.bounds = {'f32': 'all 2^32 bit patterns: every exponent field 0..255, sign and 23 fraction bits symbolic', 'f64': '%d of 2048 exponent fields (quick: every field >= 1075, boundaries and a seeded sample below; thorough: all), sign and 52 fraction bits symbolic' % len(f64_exps),
                  'to_f64_arbitrary': 'every decimal with D significant digits, D in %s, either sign, at each scale in %s, through BigDecimal::to_f64 or BigDecimalRef::to_f64' % (Ds, scales),
                  'return_trip_f64': 'every exponent field 1075..2046 (all 2^53 floats of each), fields %s sharded by sign and trailing-zero count (all 2^53 floats of each), and +-0' % sorted(rt_sharded)}
    rep.assumptions = ['f32/f64::to_bits and classify follow IEEE-754 (modelled on the bit pattern)', 'BigUint::pow / from_slice / multiplication are exact (num-bigint)']
    rep.assumptions += ['return trip: str::parse::<f64> returns the float nearest to the decimal text; BigUint::to_f64 is exact on integers that are representable (both std / num-bigint contracts)',
                        'digit strings of a rendered integer are introduced as fresh digits with the defining sum; solver queries that do not mention the digits may be decided without that definition (conservative extension)']
    rep.assumptions += ['to_f64 of an arbitrary decimal is decided up to the float primitives: BigUint::to_f64 (error <= 2^-53 relative), str::parse::<f64> (correctly rounded) and f * powi(10.0, k) (IEEE product of two roundings; std documents no precision for powi) are tokens; the 2^-48 tolerance of the property is what absorbs their error and is NOT derived here, only probed natively']
    rep.outside = ['the numerical error of f * powi(10.0, k) in to_f64 (native probe only); what IS decided for arbitrary decimals: the integer handed on is the value or its truncation to >= 25 digits, the power of ten matches, the sign is restored, zero/infinity only out of range',
                   'return trip for f64 exponent fields below 900 other than those listed (|f| < 2^-123) and for subnormals: z3 answers unknown on the 400-767 digit dividends; covered by the native probe only',
                   'return trip through to_f32 (native probe only)',
                   'f64 exponent fields not listed in the quick tier']
    sys.stderr.write('[C14] %d tasks\n' % len(tasks))
    rep.validated, rep.validation_mismatches = validate(prog, rng, 300 if tier == 'quick' else 3000, rep)
    rep.extra['native_roundtrip_probes'] = roundtrip_probe(rng, 400 if tier == 'quick' else 5000, rep)
    rep.extra['native_to_f64_probes'] = to_f64_probe(rng, 600 if tier == 'quick' else 8000, rep)
    results = H.run_parallel(tasks, worker, progress=200)
    rep.add(results)
    for r in results:
        for v in r['violations']:
            ok, out = confirm(v)
            v['native'] = out
            if ok:
                v['replay_file'] = H.write_replay_file(PROP, v)
                rep.confirmed.append(v)
            else:
                rep.unconfirmed.append(v)
    return rep.finish()


def replay(path):
    import json
    v = json.load(open(path))
    ok, out = confirm(v)
    print('replay %s -> native %s ; violation reproduced: %s' % (path, out, ok))
    return 1 if ok else 0
