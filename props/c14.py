"""C14 — binary floats convert to decimals exactly (the f32/f64 -> decimal direction; see MANIFEST level_note for what is outside)."""
import struct
import sys
from fractions import Fraction

import z3

from mirsym import harness as H
from mirsym import engine as E
from mirsym import summaries as S
from mirsym.engine import Agg, Ref, mk_enum, is_sym
from . import common as C

PROP = 'C14'
FMT = S.FLOAT_FMT


def run_float(ty, exp, entry):
    """all bit patterns with exponent field `exp` (sign and fraction symbolic)"""
    ebits, mbits = FMT[ty][:2]
    bias = 2 ** (ebits - 1) - 1
    sign, frac = z3.Ints('sign frac')

    def run(m):
        m.witness = {'sign': sign, 'frac': frac}
        m.assume(z3.And(sign >= 0, sign <= 1, frac >= 0, frac < 2 ** mbits))
        sg = 1 if m.branch_bool(sign == 1) else 0
        m.assume(sign == sg)
        f = S.FloatV(ty, sg, exp, frac)
        if entry == 'try_from':
            r = m.call('<BigDecimal as TryFrom<%s>>::try_from' % ty, [f], [ty], 'Result<BigDecimal, ParseBigDecimalError>')
            ok = r.variant == 'Ok'
            val = r.fields[0] if ok else None
        else:
            r = m.call('<BigDecimal as num_traits::FromPrimitive>::from_%s' % ty, [f], [ty], 'Option<BigDecimal>')
            ok = r.variant == 'Some'
            val = r.fields[0] if ok else None
        if exp == 2 ** ebits - 1:
            m.labels.add('nan/inf rejected')
            return [('NaN and infinities are errors', ok)]
        if not ok:
            return [('finite floats convert', True)]
        ri, rs = val.fields
        sc = m.concretize(rs)
        if exp == 0:
            mant, p2 = frac, 1 - bias - mbits
            m.labels.add('subnormal/zero')
        else:
            mant, p2 = frac + 2 ** mbits, exp - bias - mbits
            m.labels.add('normal')
        smant = -mant if sg else mant
        # ri * 10^-sc == smant * 2^p2
        lhs, rhs = ri, smant
        if sc >= 0:
            rhs = rhs * 10 ** sc
        else:
            lhs = lhs * 10 ** (-sc)
        if p2 >= 0:
            rhs = rhs * 2 ** p2
        else:
            lhs = lhs * 2 ** (-p2)
        return [('decimal equals the binary value exactly', lhs != rhs)]
    return run


def worker(t):
    prog = H.get_program()
    S.BITS_MODE[:] = ['uf', 128]
    return H.explore_task(prog, run_float(t['ty'], t['exp'], t['entry']), task=t, loop_bound=3000, timeout_ms=60000, deadline_s=900)


def bits_of(t, mdl):
    ebits, mbits = FMT[t['ty']][:2]
    return (mdl['sign'] << (ebits + mbits)) | (t['exp'] << mbits) | mdl['frac']


def confirm(v):
    t, mdl = v['task'], v['model']
    if not mdl:
        return False, 'no model'
    b = bits_of(t, mdl)
    out = H.replay_lines(['from_float\t%s\t%s\t0x%x' % (t['ty'], t['entry'], b)])[0]
    fmt = FMT[t['ty']]
    f = struct.unpack(fmt[2], struct.pack(fmt[3], b))[0]
    if f != f or f in (float('inf'), float('-inf')):
        return out != 'Err', out
    if out in ('Err', 'None') or out.startswith('PANIC'):
        return True, out
    ri, rs = H.parse_dec(out)
    return Fraction(ri) * Fraction(10) ** (-rs) != Fraction(f), out


def validate(prog, rng, n, rep=None):
    cases = []
    for i in range(n):
        ty = rng.choice(['f32', 'f64'])
        ebits, mbits = FMT[ty][:2]
        e = rng.choice([0, 1, 2, 2 ** (ebits - 1) - 1, 2 ** (ebits - 1), 2 ** ebits - 2, 2 ** ebits - 1, rng.randint(0, 2 ** ebits - 1)])
        fr = rng.choice([0, 1, 2 ** mbits - 1, 2 ** (mbits - 1), rng.randint(0, 2 ** mbits - 1)])
        cases.append((ty, rng.randint(0, 1), e, fr))
    lines = []
    for ty, sg, e, fr in cases:
        ebits, mbits = FMT[ty][:2]
        lines.append('from_float\t%s\ttry_from\t0x%x' % (ty, (sg << (ebits + mbits)) | (e << mbits) | fr))
    outs = H.replay_lines(lines)
    mism = []
    for (ty, sg, e, fr), nat in zip(cases, outs):
        if rep is not None:
            ebits, mbits = FMT[ty][:2]
            b = (sg << (ebits + mbits)) | (e << mbits) | fr
            f = struct.unpack(FMT[ty][2], struct.pack(FMT[ty][3], b))[0]
            if f != f or f in (float('inf'), float('-inf')):
                bad = nat != 'Err'
            else:
                bad = nat == 'Err' or nat.startswith('PANIC')
                if not bad:
                    ri, rs = H.parse_dec(nat)
                    bad = Fraction(ri) * Fraction(10) ** (-rs) != Fraction(f)
            if bad:
                H.probe_violation(rep, PROP, 'native conversion of %s bits 0x%x gives %s' % (ty, b, nat), {'ty': ty, 'exp': e, 'entry': 'try_from'}, {'sign': sg, 'frac': fr}, nat)
                continue
        m = E.Machine(prog, (), [], E.Stats(), loop_bound=3000)
        try:
            r = m.call('<BigDecimal as TryFrom<%s>>::try_from' % ty, [S.FloatV(ty, sg, e, fr)], [ty], 'Result')
            mine = H.dec_str(*r.fields[0].fields) if r.variant == 'Ok' else 'Err'
        except E.PathEnd as ex:
            mine = 'ENGINE:%s' % ex
        if mine != nat:
            mism.append({'case': [ty, sg, e, fr], 'mirsym': mine, 'native': nat})
    return len(cases), mism


def main(tier):
    rep = H.Report(PROP, tier)
    prog = H.get_program()
    rng = H.rng(PROP)
    tasks = []
    for e in range(0, 256):
        tasks.append({'ty': 'f32', 'exp': e, 'entry': 'try_from' if e % 2 == 0 or e in (0, 1, 254, 255) else 'from_primitive'})
    f64_exps = set([0, 1, 2, 3, 1021, 1022, 1023, 1024, 1025, 1074, 1075, 1076, 1077, 2044, 2045, 2046, 2047] + list(range(1000, 1100, 3)))
    if tier == 'quick':
        # exponent fields >= 1075 (non-negative power of two) cost one or two paths each: all of them, every run;
        # below that every field forks over up to 53 trailing-zero counts: boundaries + a seeded sample
        f64_exps |= set(range(1075, 2048)) | set(rng.sample(range(0, 1075), 150))
    else:
        f64_exps = set(range(0, 2048))
    for e in sorted(f64_exps):
        tasks.append({'ty': 'f64', 'exp': e, 'entry': 'try_from' if e % 3 else 'from_primitive'})
    for e in (0, 255):
        tasks.append({'ty': 'f32', 'exp': e, 'entry': 'from_primitive'})
    for e in (0, 2047):
        tasks.append({'ty': 'f64', 'exp': e, 'entry': 'try_from'})
    rep.required_labels = {'nan/inf rejected', 'subnormal/zero', 'normal'}
    rep.bounds = {'f32': 'all 2^32 bit patterns: every exponent field 0..255, sign and 23 fraction bits symbolic', 'f64': '%d of 2048 exponent fields (quick: every field >= 1075, boundaries and a seeded sample below; thorough: all), sign and 52 fraction bits symbolic' % len(f64_exps)}
    rep.assumptions = ['f32/f64::to_bits and classify follow IEEE-754 (modelled on the bit pattern)', 'BigUint::pow / from_slice / multiplication are exact (num-bigint)']
    rep.outside = ['decimal -> f64 direction (to_f64 round trip and error bounds): depends on correctly rounded str::parse::<f64>/powi, no linear encoding (DESIGN section 5/C14)',
                   'f64 exponent fields not listed in the quick tier']
    sys.stderr.write('[C14] %d tasks\n' % len(tasks))
    rep.validated, rep.validation_mismatches = validate(prog, rng, 300 if tier == 'quick' else 3000, rep)
    results = H.run_parallel(tasks, worker, progress=200)
    rep.add(results)
    for r in results:
        for v in r['violations']:
            ok, out = confirm(v)
            v['native'] = out
            if ok:
                v['replay_file'] = H.write_replay_file(PROP, v)
                rep.confirmed.append(v)
            else:
                rep.unconfirmed.append(v)
    return rep.finish()


def replay(path):
    import json
    v = json.load(open(path))
    ok, out = confirm(v)
    print('replay %s -> native %s ; violation reproduced: %s' % (path, out, ok))
    return 1 if ok else 0
