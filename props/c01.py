"""C01 — addition, subtraction and multiplication are exact for every operand form."""
import sys
import z3

from mirsym import harness as H
from mirsym import engine as E
from mirsym import summaries as S
from mirsym.engine import Agg, Ref, mk_enum, is_sym
from . import common as C
from . import contracts as K

PROP = 'C01'

LHS_TYPES = C.DEC_FORMS + C.BIGINT_FORMS + C.PRIMS_INT + ['&' + t for t in C.PRIMS_INT]
RHS_TYPES = LHS_TYPES

OPS = [('Add', 'add', '+'), ('Sub', 'sub', '-'), ('Mul', 'mul', '*')]
ASSIGN_OPS = [('AddAssign', 'add_assign', '+'), ('SubAssign', 'sub_assign', '-'), ('MulAssign', 'mul_assign', '*')]

UNARY = [
    # name, call path, arg type, replay name, semantics
    ('neg', '<BigDecimal as std::ops::Neg>::neg', 'BigDecimal', 'neg'),
    ('neg_ref', '<&BigDecimal as std::ops::Neg>::neg', '&BigDecimal', 'neg_ref'),
    ('neg_decref', '<BigDecimalRef as std::ops::Neg>::neg', "BigDecimalRef<'_>", 'neg_decref'),
    ('abs', 'BigDecimal::abs', '&BigDecimal', 'abs'),
    ('signed_abs', '<BigDecimal as num_traits::Signed>::abs', '&BigDecimal', 'signed_abs'),
    ('double', 'BigDecimal::double', '&BigDecimal', 'double'),
    ('half', 'BigDecimal::half', '&BigDecimal', 'half'),
    ('square', 'BigDecimal::square', '&BigDecimal', 'square'),
    ('cube', 'BigDecimal::cube', '&BigDecimal', 'cube'),
]


def overloads(prog):
    out = []
    for trait, method, sym in OPS:
        for lt, rt, path, d in C.discover_overloads(prog, 'std::ops::' + trait, method, LHS_TYPES, RHS_TYPES):
            if C.kind_of(lt) != 'dec' and C.kind_of(rt) != 'dec':
                continue
            out.append({'op': sym, 'trait': trait, 'lhs': lt, 'rhs': rt, 'path': path, 'assign': False})
    for trait, method, sym in ASSIGN_OPS:
        for lt, rt, path, d in C.discover_overloads(prog, 'std::ops::' + trait, method, ['BigDecimal'], RHS_TYPES, assign=True):
            out.append({'op': sym, 'trait': trait, 'lhs': '&mut BigDecimal', 'rhs': rt, 'path': path, 'assign': True})
    return out


def gaps_for(tier, seed_rng):
    mandatory = list(range(0, 46)) + [589, 590, 591] + [255, 256, 257, 275, 276, 511, 512, 513, 1023, 1024, 1025]   # + narrowing-cast boundaries
    if tier == 'quick':
        return mandatory + sorted(seed_rng.sample(range(46, 10001), 2))
    extra = [1000, 4999, 5000, 9999, 10000] + sorted(seed_rng.sample(range(46, 10001), 50))
    return sorted(set(list(range(0, 601)) + extra))


# ---------------------------------------------------------------------------------------------- execution

def call_binop(m, ov, x, sa, y, sb):
    a = C.make_operand(m, ov['lhs'], x, sa)
    b = C.make_operand(m, ov['rhs'], y, sb)
    r = m.call(ov['path'], [a, b], [ov['lhs'], ov['rhs']], '()' if ov['assign'] else 'BigDecimal')
    if ov['assign']:
        r = a.get()
    return r.fields[0], r.fields[1]


def exact_binop(op, x, ra, y, rb):
    """-> (numerator, scale) of the exact result with python/z3 ints; scales ra, rb are python ints"""
    if op == '*':
        return x * y, ra + rb
    M = max(ra, rb)
    xs, ys = x * 10 ** (M - ra), y * 10 ** (M - rb)
    return (xs + ys if op == '+' else xs - ys), M


def same_value(ri, rd, en, ed):
    """ri*10^-rd == en*10^-ed  with concrete rd, ed"""
    M = max(rd, ed)
    return ri * 10 ** (M - rd) == en * 10 ** (M - ed)


def run_binop(ov, ga, gb, s0_symbolic, bound_bits=None):
    x, y, s0v = z3.Ints('x y s0')

    def run(m):
        m.witness = {'x': x, 'y': y, 's0': s0v if s0_symbolic else 0}
        s0 = s0v if s0_symbolic else 0
        if s0_symbolic:
            m.assume(z3.And(s0 >= -C.SCALE_BOUND, s0 <= C.SCALE_BOUND))
        lk, rk = C.kind_of(ov['lhs']), C.kind_of(ov['rhs'])
        ra = ga if lk == 'dec' else 0
        rb = gb if rk == 'dec' else 0
        C.assume_range(m, ov['lhs'], x)
        C.assume_range(m, ov['rhs'], y)
        if bound_bits:
            m.assume(z3.And(x > -2 ** bound_bits, x < 2 ** bound_bits, y > -2 ** bound_bits, y < 2 ** bound_bits))
        ri, rs = call_binop(m, ov, x, (s0 + ra) if lk == 'dec' else 0, y, (s0 + rb) if rk == 'dec' else 0)
        en, ed = exact_binop(ov['op'], x, ra, y, rb)
        base = 2 * s0 if (ov['op'] == '*' and lk == 'dec' and rk == 'dec') else s0
        rd = m.concretize(rs - base)
        if abs(rd) > 30000:
            raise E.BoundExceeded('result scale offset %d' % rd)
        return [('exact value of %s' % ov['op'], z3.Not(same_value(ri, rd, en, ed)))]
    return run


def run_unary(name, path, ty, s_conc=None, bound_bits=None):
    x, s0v = z3.Ints('x s0')

    def run(m):
        s0 = s0v if s_conc is None else s_conc
        m.witness = {'x': x, 's0': s0}
        if s_conc is None:
            m.assume(z3.And(s0 >= -C.SCALE_BOUND, s0 <= C.SCALE_BOUND))
        if bound_bits:
            m.assume(z3.And(x > -2 ** bound_bits, x < 2 ** bound_bits))
        a = C.make_operand(m, ty, x, s0)
        r = m.call(path, [a], [ty], 'BigDecimal')
        ri, rs = C.dec_fields(r)
        if name in ('square', 'cube'):
            k = 2 if name == 'square' else 3
            rd = m.concretize(rs)
            en = x * x if k == 2 else x * x * x
            return [('exact power', z3.Not(same_value(ri, rd, en, k * s0)))]
        rd = m.concretize(rs - s0)
        if name.startswith('neg'):
            return [('negation', z3.Not(same_value(ri, rd, -x, 0)))]
        if name in ('abs', 'signed_abs'):
            return [('absolute value', z3.Not(same_value(ri, rd, z3.If(x >= 0, x, -x), 0)))]
        if name == 'double':
            return [('double', z3.Not(same_value(ri, rd, 2 * x, 0)))]
        if name == 'half':
            return [('half', z3.Not(same_value(2 * ri, rd, x, 0)))]
        raise AssertionError(name)
    return run


def worker(params):
    prog = H.get_program()
    S.DIGIT_BOUND[0] = params.get('D', 40)
    S.WORD_BOUND[0] = 4
    S.BITS_MODE[:] = ['table', 128] if params.get('real_eq') else (['ladder', 192] if params.get('refine_bits') else ['uf', 128])
    kind = params['kind']
    saved = list(E.DEFAULT_OVERRIDES)
    try:
        if params.get('contracts'):
            E.DEFAULT_OVERRIDES[:] = K.EQ_CONTRACTS + K.NORMALIZED_CONTRACTS
        if kind == 'binop':
            run = run_binop(params['ov'], params['ga'], params['gb'], params['s0sym'], params.get('bits'))
        else:
            run = run_unary(params['name'], params['path'], params['ty'], params.get('s'), params.get('bits'))
        return H.explore_task(prog, run, task=params, loop_bound=params.get('loop', 800), timeout_ms=60000, deadline_s=600)
    finally:
        E.DEFAULT_OVERRIDES[:] = saved


# ---------------------------------------------------------------------------------------------- replay

def native_binop(ov, x, sa, y, sb, profile='release'):
    lk, rk = C.kind_of(ov['lhs']), C.kind_of(ov['rhs'])
    l = H.dec_str(x, sa) if lk == 'dec' else str(x)
    r = H.dec_str(y, sb) if rk == 'dec' else str(y)
    line = '\t'.join(['binop', ov['trait'], C.norm_ty(ov['lhs']), C.norm_ty(ov['rhs']), l, r])
    return H.replay_lines([line], profile)[0]


def confirm(v):
    """replay a solver model natively; returns (confirmed, native_output)"""
    t, mdl = v['task'], v['model']
    if mdl is None:
        return False, 'no model'
    if t['kind'] == 'binop':
        ov = t['ov']
        lk, rk = C.kind_of(ov['lhs']), C.kind_of(ov['rhs'])
        s0 = mdl.get('s0', 0)
        ra = t['ga'] if lk == 'dec' else 0
        rb = t['gb'] if rk == 'dec' else 0
        out = native_binop(ov, mdl['x'], s0 + ra if lk == 'dec' else 0, mdl['y'], s0 + rb if rk == 'dec' else 0)
        if out.startswith('PANIC') or out.startswith('UNKNOWN'):
            return out.startswith('PANIC'), out
        ri, rs = H.parse_dec(out)
        en, ed = exact_binop(ov['op'], mdl['x'], s0 + ra if lk == 'dec' else 0, mdl['y'], s0 + rb if rk == 'dec' else 0)
        return (not same_value(ri, rs, en, ed)), out
    name = t['name']
    x, s0 = mdl['x'], mdl['s0']
    rname = [u for u in UNARY if u[0] == name][0][3]
    out = H.replay_lines(['unop\t%s\t%s' % (rname, H.dec_str(x, s0))])[0]
    if out.startswith('PANIC'):
        return True, out
    ri, rs = H.parse_dec(out)
    exp = {'neg': (-x, s0), 'neg_ref': (-x, s0), 'neg_decref': (-x, s0), 'abs': (abs(x), s0), 'signed_abs': (abs(x), s0),
           'double': (2 * x, s0), 'square': (x * x, 2 * s0), 'cube': (x ** 3, 3 * s0)}
    if name == 'half':
        return (not same_value(2 * ri, rs, x, s0)), out
    en, ed = exp[name]
    return (not same_value(ri, rs, en, ed)), out


def validate(prog, ovs, rng, n, rep=None, prop=PROP):
    """translator validation: concrete inputs through the MIR executor and through the native crate, bit for bit"""
    cases = []
    vals = [0, 1, -1, 2, -2, 10, 100, 7, -7, 99, 12345, -98765, 10 ** 19, 10 ** 20 - 1, -(10 ** 25), 2 ** 64, 2 ** 63 - 1]
    for i in range(n):
        ov = rng.choice(ovs)
        lk, rk = C.kind_of(ov['lhs']), C.kind_of(ov['rhs'])

        def pick(k):
            if k.startswith('int:'):
                lo, hi = E.INT_RANGE[k[4:]]
                return rng.choice([lo, hi, 0, 1, min(hi, 2), max(lo, -1), max(lo, -2), rng.randint(lo, hi)])
            return rng.choice(vals + [rng.randint(-10 ** 30, 10 ** 30)])
        x, y = pick(lk), pick(rk)
        sa = rng.choice([0, 0, 1, 2, 5, -3, 19, 20, 21, 30, -25]) if lk == 'dec' else 0
        sb = rng.choice([0, 0, 1, 2, 5, -3, 19, 20, 21, 30, -25]) if rk == 'dec' else 0
        cases.append((ov, x, sa, y, sb))
    lines = []
    for ov, x, sa, y, sb in cases:
        lk, rk = C.kind_of(ov['lhs']), C.kind_of(ov['rhs'])
        lines.append('\t'.join(['binop', ov['trait'], C.norm_ty(ov['lhs']), C.norm_ty(ov['rhs']),
                                H.dec_str(x, sa) if lk == 'dec' else str(x), H.dec_str(y, sb) if rk == 'dec' else str(y)]))
    native = H.replay_lines(lines)
    mismatches = []
    S.DIGIT_BOUND[0] = 80
    S.WORD_BOUND[0] = 8
    for (ov, x, sa, y, sb), nat in zip(cases, native):
        if rep is not None:
            bad = nat.startswith('PANIC') or nat.startswith('UNKNOWN')
            if not bad:
                ri, rs = H.parse_dec(nat)
                en, ed = exact_binop(ov['op'], x, sa, y, sb)
                bad = not same_value(ri, rs, en, ed)
            if bad:
                H.probe_violation(rep, prop, 'native %s %s %s with (%d@%d, %d@%d) gives %s' % (ov['lhs'], ov['op'], ov['rhs'], x, sa, y, sb, nat),
                                  {'kind': 'binop', 'ov': ov, 'ga': sa, 'gb': sb, 's0sym': False}, {'x': x, 'y': y, 's0': 0}, nat)
                continue
        stats = E.Stats()
        m = E.Machine(prog, (), [], stats, loop_bound=2000)
        try:
            ri, rs = call_binop(m, ov, x, sa, y, sb)
            mine = H.dec_str(ri, rs)
        except E.Panic as p:
            mine = 'PANIC'
        except E.PathEnd as e:
            mine = 'ENGINE:%s' % e
        if mine != nat and not (mine == 'PANIC' and nat.startswith('PANIC')):
            mismatches.append({'overload': ov['path'], 'inputs': [x, sa, y, sb], 'mirsym': mine, 'native': nat})
    return len(cases), mismatches


# ---------------------------------------------------------------------------------------------- main

def build_tasks(prog, tier, rng):
    ovs = overloads(prog)
    gaps = gaps_for(tier, rng)
    tasks = []
    for ov in ovs:
        lk, rk = C.kind_of(ov['lhs']), C.kind_of(ov['rhs'])
        both = lk == 'dec' and rk == 'dec'
        if ov['op'] == '*':
            scales = [(0, 0), (0, 2), (3, 0), (-2, 1), (1, -4), (45, 45), (-45, 20)]
            if tier == 'thorough':
                scales += [(a, b) for a in (-7, 1, 19, 20) for b in (-20, 0, 6, 21)]
            for (ga, gb) in scales:
                if not both and lk == 'dec':
                    gb = ga
                if not both and rk == 'dec':
                    ga = gb
                # (i) real equality / normalized bodies, operands < 2^128
                tasks.append({'kind': 'binop', 'ov': ov, 'ga': ga, 'gb': gb, 's0sym': False, 'bits': 48 if tier == 'thorough' else 32, 'real_eq': True, 'D': 40})
                # (ii) verified contracts for == and normalized, operands unbounded
                tasks.append({'kind': 'binop', 'ov': ov, 'ga': ga, 'gb': gb, 's0sym': False, 'contracts': True})
            continue
        for g in gaps:
            if both:
                tasks.append({'kind': 'binop', 'ov': ov, 'ga': 0, 'gb': g, 's0sym': True})
                if g:
                    tasks.append({'kind': 'binop', 'ov': ov, 'ga': g, 'gb': 0, 's0sym': True})
            else:
                tasks.append({'kind': 'binop', 'ov': ov, 'ga': g, 'gb': g, 's0sym': False})
                if g:
                    tasks.append({'kind': 'binop', 'ov': ov, 'ga': -g, 'gb': -g, 's0sym': False})
    for name, path, ty, rname in UNARY:
        if name in ('square', 'cube'):
            for sc in [-3, 0, 1, 2, 7] + ([19, 20, 45, -45] if tier == 'thorough' else []):
                tasks.append({'kind': 'unary', 'name': name, 'path': path, 'ty': ty, 's': sc, 'contracts': True})
                tasks.append({'kind': 'unary', 'name': name, 'path': path, 'ty': ty, 's': sc, 'bits': 48 if tier == 'thorough' else 32, 'real_eq': True})
        else:
            tasks.append({'kind': 'unary', 'name': name, 'path': path, 'ty': ty})
    return ovs, gaps, tasks


def main(tier):
    rep = H.Report(PROP, tier)
    prog = H.get_program()
    rng = H.rng(PROP)
    ovs, gaps, tasks = build_tasks(prog, tier, rng)
    rep.bounds = {'overloads_discovered_in_dump': len(ovs), 'scale_gaps': gaps,
                  'x,y': 'unbounded integers (SMT Int) for add/sub/neg/abs/double/half and for mul under the ==/normalized contracts; |x|,|y| < 2^128 where the real == / normalized bodies are executed',
                  's0': 'symbolic, |s0| <= 2^60 (decimal x decimal add/sub); concrete scales for mixed and mul forms'}
    rep.assumptions = ['num-bigint arithmetic is exact (BigInt = mathematical integer)',
                       'contracts substituted in run (ii) of Mul/square/cube: BigDecimal == is numeric equality (C02), normalized() keeps the value (C18)',
                       'normalized() contract restricted to <= %d trailing zeros' % K.NORMALIZED_MAX_TRAILING_ZEROS]
    rep.outside = ['|scale| > 2^60', 'scale gaps not listed in bounds.scale_gaps', 'Sum over iterators (covered by C19 inductive step)']
    sys.stderr.write('[C01] %d overloads, %d tasks\n' % (len(ovs), len(tasks)))
    n, mism = validate(prog, ovs, rng, 300 if tier == 'quick' else 3000, rep)
    rep.validated = n
    rep.validation_mismatches = mism
    results = H.run_parallel(tasks, worker, progress=2000)
    rep.add(results)
    refined = {}
    for r in results:
        for v in r['violations']:
            ok, out = confirm(v)
            v['native'] = out
            if ok:
                v['replay_file'] = H.write_replay_file(PROP, v)
                rep.confirmed.append(v)
                continue
            # Counterexample refinement: bits() is an uninterpreted function in the first pass (the pinned code only uses it
            # to pick which operand to clone).  A model that does not replay may rest on an impossible bits() value: re-decide
            # the task with the exact bit-length facts; only what survives is reported (confirmed or unconfirmed).
            t = v['task']
            key = H.json.dumps(t, sort_keys=True, default=str)
            if t.get('real_eq') or t.get('refine_bits'):
                rep.unconfirmed.append(v)
                continue
            if key not in refined:
                rr = worker(dict(t, refine_bits=True))
                rr = rr if isinstance(rr, list) else [rr]
                refined[key] = rr
                rep.extra['tasks_refined_with_exact_bits'] = rep.extra.get('tasks_refined_with_exact_bits', 0) + 1
                for r2 in rr:
                    for inc in r2['inconclusive']:
                        rep.unconfirmed.append({'kind': 'refinement-inconclusive', 'detail': str(inc)[:300], 'task': t, 'model': None, 'native': ''})
                    for v2 in r2['violations']:
                        ok2, out2 = confirm(v2)
                        v2['native'] = out2
                        if ok2:
                            v2['replay_file'] = H.write_replay_file(PROP, v2)
                            rep.confirmed.append(v2)
                        else:
                            rep.unconfirmed.append(v2)
    return rep.finish()


def replay(path):
    import json
    v = json.load(open(path))
    ok, out = confirm(v)
    print('replay %s -> native %s ; violation reproduced: %s' % (path, out, ok))
    return 1 if ok else 0
