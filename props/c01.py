"""C01 — addition, subtraction and multiplication are exact for every operand form."""
import sys
import z3

from mirsym import harness as H
from mirsym import engine as E
from mirsym import summaries as S
from mirsym.engine import Agg, Ref, mk_enum, is_sym
from . import common as C

PROP = 'C01'

LHS_TYPES = C.DEC_FORMS + C.BIGINT_FORMS + C.PRIMS_INT + ['&' + t for t in C.PRIMS_INT]
RHS_TYPES = LHS_TYPES

OPS = [('Add', 'add', '+'), ('Sub', 'sub', '-'), ('Mul', 'mul', '*')]
ASSIGN_OPS = [('AddAssign', 'add_assign', '+'), ('SubAssign', 'sub_assign', '-'), ('MulAssign', 'mul_assign', '*')]


def overloads(prog):
    out = []
    for trait, method, sym in OPS:
        for lt, rt, path, d in C.discover_overloads(prog, 'std::ops::' + trait, method, LHS_TYPES, RHS_TYPES):
            if C.kind_of(lt) != 'dec' and C.kind_of(rt) != 'dec':
                continue
            out.append({'op': sym, 'trait': trait, 'lhs': lt, 'rhs': rt, 'path': path, 'assign': False})
    for trait, method, sym in ASSIGN_OPS:
        for lt, rt, path, d in C.discover_overloads(prog, 'std::ops::' + trait, method, ['BigDecimal'], RHS_TYPES, assign=True):
            out.append({'op': sym, 'trait': trait, 'lhs': '&mut BigDecimal', 'rhs': rt, 'path': path, 'assign': True})
    return out


def gaps_for(tier, seed_rng):
    mandatory = list(range(0, 46)) + [589, 590, 591]
    if tier == 'quick':
        extra = sorted(seed_rng.sample(range(46, 10001), 2))
        return mandatory + extra
    extra = [1000, 4999, 5000, 9999, 10000] + sorted(seed_rng.sample(range(46, 10001), 50))
    return sorted(set(list(range(0, 601)) + extra))


def run_binop(prog, ov, ga, gb, s0_symbolic, mul_scales=None):
    """explore one overload with a = x@(s0+ga), b = y@(s0+gb)"""
    x, y, s0v = z3.Ints('x y s0')

    def run(m):
        m.witness = {'x': x, 'y': y, 's0': s0v if s0_symbolic else 0}
        if s0_symbolic:
            s0 = s0v
            m.assume(z3.And(s0 >= -C.SCALE_BOUND, s0 <= C.SCALE_BOUND))
        else:
            s0 = 0
        lk, rk = C.kind_of(ov['lhs']), C.kind_of(ov['rhs'])
        sa = s0 + ga if lk == 'dec' else 0
        sb = s0 + gb if rk == 'dec' else 0
        C.assume_range(m, ov['lhs'], x)
        C.assume_range(m, ov['rhs'], y)
        a = C.make_operand(m, ov['lhs'], x, sa)
        b = C.make_operand(m, ov['rhs'], y, sb)
        lt = ov['lhs']
        r = m.call(ov['path'], [a, b], [lt, ov['rhs']], '()' if ov['assign'] else 'BigDecimal')
        if ov['assign']:
            r = a.get()
        ri, rs = r.fields
        # scales relative to s0 (python ints)
        ra = ga if lk == 'dec' else 0
        rb = gb if rk == 'dec' else 0
        if ov['op'] == '*':
            base = (sa + sb)
            d = m.concretize(rs - base)       # result scale relative to sa+sb
            # ri * 10^-(base+d) == x*y*10^-base   <=>  ri == x*y*10^d (d>=0)  or ri*10^-d == x*y
            if d >= 0:
                wrong = ri != x * y * 10 ** d
            else:
                wrong = ri * 10 ** (-d) != x * y
            return [('product value', wrong)]
        d = m.concretize(rs - s0)
        M = max(ra, rb, d)
        lhsv = ri * 10 ** (M - d)
        if ov['op'] == '+':
            rhsv = x * 10 ** (M - ra) + y * 10 ** (M - rb)
        else:
            rhsv = x * 10 ** (M - ra) - y * 10 ** (M - rb)
        return [('sum/difference value', lhsv != rhsv)]
    return run


def worker(params):
    prog = H.get_program()
    ov = params['ov']
    S.DIGIT_BOUND[0] = params.get('D', 40)
    S.BITS_MODE[:] = ['uf', 128]
    res = H.explore_task(prog, run_binop(prog, ov, params['ga'], params['gb'], params['s0sym']), task=params,
                         loop_bound=params.get('loop', 700), timeout_ms=60000)
    return res


def main(tier):
    rep = H.Report(PROP, tier)
    prog = H.get_program()
    ovs = overloads(prog)
    rng = H.rng(PROP)
    gaps = gaps_for(tier, rng)
    tasks = []
    for ov in ovs:
        both_dec = C.kind_of(ov['lhs']) == 'dec' and C.kind_of(ov['rhs']) == 'dec'
        if ov['op'] == '*':
            continue
        for g in gaps:
            if both_dec:
                tasks.append({'ov': ov, 'ga': 0, 'gb': g, 's0sym': True})
                if g:
                    tasks.append({'ov': ov, 'ga': g, 'gb': 0, 's0sym': True})
            else:
                # the non-decimal operand has scale 0: the decimal's scale is +-g
                tasks.append({'ov': ov, 'ga': g, 'gb': g, 's0sym': False})
                if g:
                    tasks.append({'ov': ov, 'ga': -g, 'gb': -g, 's0sym': False})
    rep.bounds = {'overloads': len(ovs), 'gaps': gaps, 'x,y': 'unbounded integers (SMT Int)', 's0': '|s0| <= 2^60, symbolic'}
    sys.stderr.write('[C01] %d overloads, %d tasks\n' % (len(ovs), len(tasks)))
    rep.add(H.run_parallel(tasks, worker, progress=500))
    return rep.finish()
