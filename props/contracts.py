"""Assume-guarantee contracts of crate-internal functions that are decided on their own (C02, C18) and may then be
substituted in callers.  Every harness that installs one lists it in its evidence."""
import re
import z3

from mirsym import engine as E
from mirsym import summaries as S
from mirsym.engine import Agg, Ref, mk_enum, is_sym
from mirsym.summaries import deref

NORMALIZED_MAX_TRAILING_ZEROS = 45


def _dec_fields(v):
    v = deref(v)
    if v.name == 'BigDecimal':
        return v.fields[0], v.fields[1]
    if v.name == 'BigDecimalRef':
        sign, digits, scale = v.fields
        mag = deref(digits)
        x = -mag if sign.variant == 'Minus' else (0 if sign.variant == 'NoSign' else mag)
        return x, scale
    raise E.Unsupported('decimal? %r' % (v,))


def eq_contract(m, mo, args, tys, dty):
    """numeric equality (decided for the real body by C02)"""
    (x, sa), (y, sb) = _dec_fields(args[0]), _dec_fields(args[1])
    d = m.concretize(sa - sb)
    if abs(d) > 20000:
        raise E.BoundExceeded('eq contract: scale gap %d' % d)
    return x * 10 ** max(0, -d) == y * 10 ** max(0, d)


def ne_contract(m, mo, args, tys, dty):
    r = eq_contract(m, mo, args, tys, dty)
    return (not r) if isinstance(r, bool) else z3.Not(r)


def normalized_contract(m, mo, args, tys, dty):
    """equal value, no trailing zero digit, zero -> (0, 0)  (decided for the real body by C18).
    Restricted to inputs with at most NORMALIZED_MAX_TRAILING_ZEROS trailing zeros (stated input bound)."""
    x, s = _dec_fields(args[0])
    if m.branch_bool(x == 0):
        return Agg('struct', 'BigDecimal', [0, 0])
    K = NORMALIZED_MAX_TRAILING_ZEROS
    if not is_sym(x):
        k = 0
        while x % 10 ** (k + 1) == 0:
            k += 1
        return Agg('struct', 'BigDecimal', [x // 10 ** k, s - k])
    # x == n_k * 10^k with n_k not divisible by ten (one fresh n_k per alternative: existential reading, exclusive and exhaustive)
    ns = [m.fresh('norm') for _ in range(K + 2)]
    k = m.choose_n(K + 2, lambda k: z3.And(x == ns[k] * 10 ** k, ns[k] % 10 != 0) if k <= K else (x == ns[k] * 10 ** (K + 1)))
    if k == K + 1:
        m.labels.add('outside:normalized-more-than-%d-trailing-zeros' % K)
        raise E.Infeasible()
    return Agg('struct', 'BigDecimal', [ns[k], s - k])


EQ_CONTRACTS = [
    (re.compile(r'^<BigDecimal as PartialEq>::eq$'), eq_contract),
    (re.compile(r'^<BigDecimal as PartialEq>::ne$'), ne_contract),
    (re.compile(r'^<BigDecimalRef as PartialEq<.*>>::eq$'), eq_contract),
    (re.compile(r'^check_equality_bigdecimal_ref$'), eq_contract),
]
NORMALIZED_CONTRACTS = [
    (re.compile(r'^BigDecimal::normalized$'), normalized_contract),
]


# ---------------------------------------------------------------- digit counting / rounding term (decided for the real bodies by C18 / C07)
DIGITS_MAX = [40]


def _digit_count_fork(m, mag, what):
    """fork over the number of decimal digits of the non-negative term mag (1 for zero); bound DIGITS_MAX"""
    D = DIGITS_MAX[0]
    if not is_sym(mag):
        return len(str(mag))
    k = m.choose_n(D + 1, lambda d: (mag >= 10 ** D) if d == D else (mag < 10 if d == 0 else z3.And(mag >= 10 ** d, mag < 10 ** (d + 1))))
    if k == D:
        raise E.BoundExceeded('%s: more than %d digits' % (what, D))
    return k + 1


def count_digits_contract(m, mo, args, tys, dty):
    x = deref(args[0])
    if isinstance(x, Agg):           # &BigDecimal / BigDecimalRef receiver
        x = _dec_fields(x)[0]
    mag = S.zabs(x)
    return _digit_count_fork(m, mag, 'digits')


def rounding_term_contract(m, mo, args, tys, dty):
    """get_rounding_term(n) = 1 iff the leading decimal digit of n (> 0) is >= 5; 0 for 0; 1 for negative n (first comparison)"""
    x = deref(args[0])
    if m.branch_bool(x == 0):
        return 0
    if m.branch_bool(x < 0):
        return 1        # `*num < n` holds at once for a negative argument
    d = _digit_count_fork(m, x, 'get_rounding_term')
    return 1 if m.branch_bool(x >= 5 * 10 ** (d - 1)) else 0


DIGIT_CONTRACTS = [
    (re.compile(r'^count_decimal_digits(_uint)?$'), count_digits_contract),
    (re.compile(r'^BigDecimal::digits$'), count_digits_contract),
    (re.compile(r'^BigDecimalRef::count_digits$'), count_digits_contract),
]
ROUNDING_TERM_CONTRACTS = [
    (re.compile(r'^get_rounding_term$'), rounding_term_contract),
]
