"""Assume-guarantee contracts of crate-internal functions that are decided on their own (C02, C18) and may then be
substituted in callers.  Every harness that installs one lists it in its evidence."""
import re
import z3

from mirsym import engine as E
from mirsym import summaries as S
from mirsym.engine import Agg, Ref, mk_enum, is_sym
from mirsym.summaries import deref

NORMALIZED_MAX_TRAILING_ZEROS = 45


def _dec_fields(v):
    v = deref(v)
    if v.name == 'BigDecimal':
        return v.fields[0], v.fields[1]
    if v.name == 'BigDecimalRef':
        sign, digits, scale = v.fields
        mag = deref(digits)
        x = -mag if sign.variant == 'Minus' else (0 if sign.variant == 'NoSign' else mag)
        return x, scale
    raise E.Unsupported('decimal? %r' % (v,))


def eq_contract(m, mo, args, tys, dty):
    """numeric equality (decided for the real body by C02)"""
    (x, sa), (y, sb) = _dec_fields(args[0]), _dec_fields(args[1])
    d = m.concretize(sa - sb)
    if abs(d) > 20000:
        raise E.BoundExceeded('eq contract: scale gap %d' % d)
    return x * 10 ** max(0, -d) == y * 10 ** max(0, d)


def ne_contract(m, mo, args, tys, dty):
    r = eq_contract(m, mo, args, tys, dty)
    return (not r) if isinstance(r, bool) else z3.Not(r)


def normalized_contract(m, mo, args, tys, dty):
    """equal value, no trailing zero digit, zero -> (0, 0)  (decided for the real body by C18).
    Restricted to inputs with at most NORMALIZED_MAX_TRAILING_ZEROS trailing zeros (stated input bound)."""
    x, s = _dec_fields(args[0])
    if m.branch_bool(x == 0):
        return Agg('struct', 'BigDecimal', [0, 0])
    K = NORMALIZED_MAX_TRAILING_ZEROS
    if not is_sym(x):
        k = 0
        while x % 10 ** (k + 1) == 0:
            k += 1
        return Agg('struct', 'BigDecimal', [x // 10 ** k, s - k])
    # x == n_k * 10^k with n_k not divisible by ten (one fresh n_k per alternative: existential reading, exclusive and exhaustive)
    ns = [m.fresh('norm') for _ in range(K + 2)]
    k = m.choose_n(K + 2, lambda k: z3.And(x == ns[k] * 10 ** k, ns[k] % 10 != 0) if k <= K else (x == ns[k] * 10 ** (K + 1)))
    if k == K + 1:
        m.labels.add('outside:normalized-more-than-%d-trailing-zeros' % K)
        raise E.Infeasible()
    return Agg('struct', 'BigDecimal', [ns[k], s - k])


EQ_CONTRACTS = [
    (re.compile(r'^<BigDecimal as PartialEq>::eq$'), eq_contract),
    (re.compile(r'^<BigDecimal as PartialEq>::ne$'), ne_contract),
    (re.compile(r'^<BigDecimalRef as PartialEq<.*>>::eq$'), eq_contract),
    (re.compile(r'^(?:[a-z_]+::)*check_equality_bigdecimal_ref$'), eq_contract),
]
NORMALIZED_CONTRACTS = [
    (re.compile(r'^BigDecimal::normalized$'), normalized_contract),
]


# ---------------------------------------------------------------- digit counting / rounding term (decided for the real bodies by C18 / C07)
DIGITS_MAX = [40]
OPEN_ENDED = [False]


def _digit_count_fork(m, mag, what):
    """fork over the number of decimal digits of the non-negative term mag (1 for zero); bound DIGITS_MAX"""
    D = DIGITS_MAX[0]
    if not is_sym(mag):
        return len(str(mag))
    k = m.choose_n(D + 1, lambda d: (mag >= 10 ** D) if d == D else (mag < 10 if d == 0 else z3.And(mag >= 10 ** d, mag < 10 ** (d + 1))))
    if k == D:
        if OPEN_ENDED[0]:
            # beyond the table the count is only known to exceed D (sound over-approximation; models are replayed natively)
            d = m.fresh('ndigits')
            m.assume(z3.And(d >= D + 1, d <= 2 ** 40))
            return d
        raise E.BoundExceeded('%s: more than %d digits' % (what, D))
    return k + 1


def count_digits_contract(m, mo, args, tys, dty):
    x = deref(args[0])
    if isinstance(x, Agg):           # &BigDecimal / BigDecimalRef receiver
        x = _dec_fields(x)[0]
    mag = S.zabs(x)
    return _digit_count_fork(m, mag, 'digits')


def rounding_term_contract(m, mo, args, tys, dty):
    """get_rounding_term(n) = 1 iff the leading decimal digit of n (> 0) is >= 5; 0 for 0; 1 for negative n (first comparison)"""
    x = deref(args[0])
    if m.branch_bool(x == 0):
        return 0
    if m.branch_bool(x < 0):
        return 1        # `*num < n` holds at once for a negative argument
    d = _digit_count_fork(m, x, 'get_rounding_term')
    return 1 if m.branch_bool(x >= 5 * 10 ** (d - 1)) else 0


DIGIT_CONTRACTS = [
    (re.compile(r'^(?:[a-z_]+::)*count_decimal_digits(_uint)?$'), count_digits_contract),
    (re.compile(r'^BigDecimal::digits$'), count_digits_contract),
    (re.compile(r'^BigDecimalRef::count_digits$'), count_digits_contract),
]
ROUNDING_TERM_CONTRACTS = [
    (re.compile(r'^(?:[a-z_]+::)*get_rounding_term$'), rounding_term_contract),
]


# ---------------------------------------------------------------- integer roots (num-bigint): environment contracts for C10 / C11
import math


def _iroot(n, k):
    if k == 2:
        return math.isqrt(n)
    lo, hi = 0, 1 << (n.bit_length() // k + 2)
    while lo < hi:
        mid = (lo + hi + 1) // 2
        if mid ** k <= n:
            lo = mid
        else:
            hi = mid - 1
    return lo


ROOT_DIGITS_MAX = [120]


def root_contract(k):
    """BigUint::sqrt / nth_root(3): returns r = floor(N^(1/k)).  Modelled by a fresh r bounded by the integer roots of the
    digit-count range of N and a free Boolean `exact` standing for r^k == N (the power relation itself is not encoded)."""
    def contract(m, mo, args, tys, dty):
        N = deref(args[0])
        if k == 3 and len(args) > 1:
            kk = args[1]
            if kk != 3:
                raise E.Unsupported('nth_root(%r)' % (kk,))
        if not is_sym(N):
            r = _iroot(N, k)
            m.root_facts.append((N, r, r ** k == N))
            return r
        D = ROOT_DIGITS_MAX[0]
        d = m.choose_n(D + 2, lambda j: (N == 0) if j == 0 else ((N >= 10 ** D) if j == D + 1 else z3.And(N >= 10 ** (j - 1), N < 10 ** j)))
        if d == D + 1:
            raise E.BoundExceeded('root argument has more than %d digits' % D)
        if d == 0:
            m.root_facts.append((N, 0, True))
            return 0
        lo, hi = _iroot(10 ** (d - 1), k), _iroot(10 ** d - 1, k)
        r = m.fresh('iroot')
        exact = z3.Bool('root_exact!%d' % m.fresh_n)
        m.assume(z3.And(r >= lo, r <= hi))
        m.root_facts.append((N, r, exact))
        if not hasattr(m, 'root_vars'):
            m.root_vars = {}
        m.root_vars[r.get_id()] = (N, r, exact, k)          # lets r*r / r.pow(k) be tied to `exact` (summaries.root_power)
        return r
    contract.__name__ = 'root%d_contract' % k
    return contract


def perfect_power_candidates(nd, k, near=None, limit=48):
    """positive integers with nd decimal digits that are c^k * 10^j (exact roots), a spread of them plus those nearest to `near`"""
    if nd <= 0:
        return []
    lo, hi = 10 ** (nd - 1), 10 ** nd - 1
    out = []
    for j in range(0, nd, 1):
        if j % k and False:
            continue
        a, b = -(-lo // 10 ** j), hi // 10 ** j
        if a > b:
            continue
        ca, cb = _iroot(a - 1, k) + 1 if a > 0 else 0, _iroot(b, k)
        if ca > cb:
            continue
        step = max(1, (cb - ca) // 6)
        cs = set(range(ca, cb + 1, step)) | {ca, cb}
        if near:
            c0 = _iroot(max(near // 10 ** j, 0), k)
            cs |= {c for c in (c0 - 1, c0, c0 + 1) if ca <= c <= cb}
        for c in sorted(cs):
            if c > 0:
                out.append(c ** k * 10 ** j)
    seen, res = set(), []
    for n in out:
        if n not in seen and lo <= n <= hi:
            seen.add(n)
            res.append(n)
    return res[:limit]


SQRT_CONTRACTS = [(re.compile(r'^(?:num_bigint::)?BigUint::sqrt$'), root_contract(2))]
CBRT_CONTRACTS = [(re.compile(r'^(?:num_bigint::)?BigUint::(nth_root|cbrt)$'), root_contract(3))]
