"""Cut-point support: locate loop heads structurally (back edges of the regenerated CFG), never by block number."""
import re


def succs(blk):
    t = blk.term
    if t is None:
        return []
    if t.kind == 'goto':
        return [t.data['target']]
    if t.kind == 'switchInt':
        return [b for _, b in t.data['targets']]
    if t.kind in ('call', 'drop', 'assert'):
        d = t.data['targets']
        return [v for k, v in d.items() if k in ('return', 'success')]
    return []


def reachable(body, start):
    seen, st = set(), [start]
    while st:
        b = st.pop()
        for s_ in succs(body.blocks[b]):
            if s_ not in seen:
                seen.add(s_)
                st.append(s_)
    return seen


def loop_heads(body):
    """targets of back edges (DFS from bb0 over non-cleanup blocks)"""
    heads = set()
    color = {}
    stack = [('bb0', iter(succs(body.blocks['bb0'])))]
    color['bb0'] = 1
    while stack:
        node, it = stack[-1]
        nxt = next(it, None)
        if nxt is None:
            color[node] = 2
            stack.pop()
            continue
        if body.blocks[nxt].cleanup:
            continue
        c = color.get(nxt, 0)
        if c == 1:
            heads.add(nxt)
        elif c == 0:
            color[nxt] = 1
            stack.append((nxt, iter(succs(body.blocks[nxt]))))
    return heads


def cycle_blocks(body, head):
    r = reachable(body, head)
    return {b for b in r if head in reachable(body, b) or b == head}


def find_loop_head(body, call_regex):
    """the loop head whose natural loop contains a call matching call_regex (exactly one must exist)"""
    rx = re.compile(call_regex)
    out = []
    for h in loop_heads(body):
        for b in cycle_blocks(body, h):
            t = body.blocks[b].term
            if t is not None and t.kind == 'call' and rx.search(t.data['func']):
                out.append(h)
                break
    if len(out) != 1:
        raise ValueError('expected exactly one loop with a call matching %r, found %r' % (call_regex, out))
    return out[0]
