"""Spike: parser for rustc -Zunpretty=mir text."""
import re, sys, collections

OPEN = {'(': ')', '[': ']', '{': '}', '<': '>'}
CLOSE = {v: k for k, v in OPEN.items()}


def scan_top(s, start=0):
    """yield (i, ch) for characters at nesting depth 0; handles string/char/byte-string literals and '->'"""
    depth = []
    i = start
    n = len(s)
    while i < n:
        c = s[i]
        if c == '"':
            # string literal
            j = i + 1
            while j < n:
                if s[j] == '\\':
                    j += 2
                    continue
                if s[j] == '"':
                    break
                j += 1
            i = j + 1
            continue
        if c == "'":
            # char literal or lifetime
            m = re.match(r"'(\\.[^']*|[^'\\])'", s[i:])
            if m:
                i += m.end()
                continue
            # lifetime: skip identifier
            m = re.match(r"'[A-Za-z_][A-Za-z0-9_]*", s[i:])
            if m:
                i += m.end()
                continue
        if c == '-' and i + 1 < n and s[i + 1] == '>':
            if not depth:
                yield i, '->'
            i += 2
            continue
        if c == '=' and i + 1 < n and s[i + 1] == '>':
            i += 2
            continue
        if c in OPEN:
            if not depth:
                yield i, c
            depth.append(c)
        elif c in CLOSE:
            if depth and depth[-1] == CLOSE[c]:
                depth.pop()
            elif not depth:
                yield i, c
        else:
            if not depth:
                yield i, c
        i += 1


def split_top(s, sep=','):
    parts = []
    last = 0
    for i, c in scan_top(s):
        if c == sep:
            parts.append(s[last:i].strip())
            last = i + 1
    tail = s[last:].strip()
    if tail or parts:
        parts.append(tail)
    return [p for p in parts if p != '' or True]


def find_top(s, sub, start=0):
    """find first occurrence of substring sub at depth 0"""
    L = len(sub)
    for i, c in scan_top(s, 0):
        if i >= start and s.startswith(sub, i):
            return i
    return -1


def match_close(s, i):
    """s[i] is an opener; return index of its matching closer"""
    assert s[i] in OPEN
    depth = 0
    n = len(s)
    j = i
    while j < n:
        c = s[j]
        if c == '"':
            k = j + 1
            while k < n:
                if s[k] == '\\':
                    k += 2
                    continue
                if s[k] == '"':
                    break
                k += 1
            j = k + 1
            continue
        if c == "'":
            m = re.match(r"'(\\.[^']*|[^'\\])'", s[j:])
            if m:
                j += m.end()
                continue
            m = re.match(r"'[A-Za-z_][A-Za-z0-9_]*", s[j:])
            if m:
                j += m.end()
                continue
        if c == '-' and j + 1 < n and s[j + 1] == '>':
            j += 2
            continue
        if c == '=' and j + 1 < n and s[j + 1] == '>':
            j += 2
            continue
        if c in OPEN:
            depth += 1
        elif c in CLOSE:
            depth -= 1
            if depth == 0:
                return j
        j += 1
    raise ValueError('unbalanced: ' + s)


# ---------------------------------------------------------------- places / operands

class Place:
    __slots__ = ('local', 'proj')

    def __init__(self, local, proj=()):
        self.local = local
        self.proj = tuple(proj)

    def __repr__(self):
        return 'P(_%d%s)' % (self.local, ''.join(str(p) for p in self.proj))


def parse_place(s):
    s = s.strip()
    m = re.fullmatch(r'_(\d+)', s)
    if m:
        return Place(int(m.group(1)))
    # indexing suffix  X[_3]  or X[2 of 4] ...
    if s.endswith(']'):
        # find matching '['
        depth = 0
        for i in range(len(s) - 1, -1, -1):
            if s[i] == ']':
                depth += 1
            elif s[i] == '[':
                depth -= 1
                if depth == 0:
                    break
        base = parse_place(s[:i])
        idx = s[i + 1:-1]
        mm = re.fullmatch(r'_(\d+)', idx)
        if mm:
            return Place(base.local, base.proj + (('index', int(mm.group(1))),))
        return Place(base.local, base.proj + (('constindex', idx),))
    if s.startswith('(') and match_close(s, 0) == len(s) - 1:
        inner = s[1:-1].strip()
        if inner.startswith('*'):
            base = parse_place(inner[1:])
            return Place(base.local, base.proj + (('deref',),))
        # field:  BASE.N: TYPE
        # find the ': ' separating type at top level -- first find '.N:' pattern at top level from the right of base
        # base is either _N or parenthesised
        if inner.startswith('('):
            j = match_close(inner, 0)
            base_s, rest = inner[:j + 1], inner[j + 1:]
        else:
            mm = re.match(r'_\d+', inner)
            base_s, rest = inner[:mm.end()], inner[mm.end():]
        rest = rest.strip()
        mm = re.match(r'\.(\d+): (.*)$', rest, re.S)
        if mm:
            base = parse_place(base_s)
            return Place(base.local, base.proj + (('field', int(mm.group(1)), mm.group(2)),))
        mm = re.match(r'as (variant#\d+|[A-Za-z_][A-Za-z0-9_]*)$', rest)
        if mm:
            base = parse_place(base_s)
            return Place(base.local, base.proj + (('downcast', mm.group(1)),))
        raise ValueError('place? ' + s)
    raise ValueError('place? ' + s)


class Operand:
    __slots__ = ('kind', 'val', 'ty')

    def __init__(self, kind, val, ty=None):
        self.kind = kind  # copy / move / const / fn
        self.val = val
        self.ty = ty

    def __repr__(self):
        return '%s(%r)' % (self.kind, self.val)


def parse_operand(s):
    s = s.strip()
    if s.startswith('copy '):
        return Operand('copy', parse_place(s[5:]))
    if s.startswith('move '):
        return Operand('move', parse_place(s[5:]))
    if s.startswith('no_retag '):
        return parse_operand(s[len('no_retag '):])
    if s.startswith('const '):
        return Operand('const', s[6:].strip())
    # bare function item / path used as value
    return Operand('fn', s)


BINOPS = {'Eq', 'Ne', 'Lt', 'Le', 'Gt', 'Ge', 'Add', 'Sub', 'Mul', 'Div', 'Rem', 'BitAnd', 'BitOr', 'BitXor',
          'Shl', 'Shr', 'AddWithOverflow', 'SubWithOverflow', 'MulWithOverflow', 'Offset', 'Cmp',
          'AddUnchecked', 'SubUnchecked', 'MulUnchecked', 'ShlUnchecked', 'ShrUnchecked'}
UNOPS = {'Neg', 'Not', 'PtrMetadata'}


class Rvalue:
    __slots__ = ('kind', 'args')

    def __init__(self, kind, *args):
        self.kind = kind
        self.args = args

    def __repr__(self):
        return 'R:%s%r' % (self.kind, self.args)


def parse_rvalue(s):
    s = s.strip()
    m = re.match(r'([A-Za-z]+)\(', s)
    if m and m.group(1) in BINOPS and match_close(s, m.end() - 1) == len(s) - 1:
        a, b = split_top(s[m.end():-1])
        return Rvalue('binop', m.group(1), parse_operand(a), parse_operand(b))
    if m and m.group(1) in UNOPS and match_close(s, m.end() - 1) == len(s) - 1:
        return Rvalue('unop', m.group(1), parse_operand(s[m.end():-1]))
    if s.startswith('discriminant(') and s.endswith(')'):
        return Rvalue('discriminant', parse_place(s[len('discriminant('):-1]))
    if s.startswith('&raw '):
        mm = re.match(r'&raw (const|mut) (.*)$', s)
        return Rvalue('rawref', mm.group(1), parse_place(mm.group(2)))
    if s.startswith('&'):
        rest = s[1:].strip()
        mut = False
        if rest.startswith('mut '):
            mut = True
            rest = rest[4:]
        # optional borrow kinds e.g. "fake shallow"
        rest = re.sub(r'^(fake shallow |fake |two_phase |shallow |unique )', '', rest)
        return Rvalue('ref', mut, parse_place(rest))
    # cast:  OPERAND as TYPE (Kind)
    mm = re.match(r'^(.*) as (.*) \(([A-Za-z]+(?:\([A-Za-z, ]*\))?)\)$', s, re.S)
    if mm and (mm.group(1).startswith(('copy ', 'move ', 'const ')) or True):
        try:
            op = parse_operand(mm.group(1))
            if op.kind != 'fn' or True:
                return Rvalue('cast', mm.group(3), op, mm.group(2))
        except ValueError:
            pass
    if s.startswith(('copy ', 'move ', 'const ', 'no_retag ')):
        return Rvalue('use', parse_operand(s))
    if s.startswith('(') and match_close(s, 0) == len(s) - 1:
        inner = s[1:-1].strip()
        items = split_top(inner) if inner else []
        items = [x for x in items if x != '']
        return Rvalue('tuple', [parse_operand(x) for x in items])
    if s.startswith('[') and match_close(s, 0) == len(s) - 1:
        inner = s[1:-1]
        if find_top(inner, ';') >= 0:
            k = find_top(inner, ';')
            return Rvalue('repeat', parse_operand(inner[:k]), inner[k + 1:].strip())
        items = [x for x in split_top(inner) if x != '']
        return Rvalue('array', [parse_operand(x) for x in items])
    # aggregate with braces:  Path { f: op, ... }   or closure  {closure@...} or Path::Variant(op,..) handled as 'other'
    if s.endswith('}'):
        # find opening brace that matches final
        depth = 0
        for i in range(len(s) - 1, -1, -1):
            if s[i] == '}':
                depth += 1
            elif s[i] == '{':
                depth -= 1
                if depth == 0:
                    break
        head = s[:i].strip()
        body = s[i + 1:-1].strip()
        if head:
            fields = []
            for part in split_top(body):
                if not part:
                    continue
                k = find_top(part, ':')
                fields.append((part[:k].strip(), parse_operand(part[k + 1:])))
            return Rvalue('aggregate', head, fields)
    # enum variant constructor with parens:  Option::<T>::Some(move _1)
    mm = re.match(r'^(.*?)\((.*)\)$', s, re.S)
    if mm and find_top(s, '(') >= 0:
        k = find_top(s, '(')
        if match_close(s, k) == len(s) - 1:
            head = s[:k]
            args = [x for x in split_top(s[k + 1:-1]) if x != '']
            return Rvalue('variant', head.strip(), [parse_operand(x) for x in args])
    # unit variant / path constant
    return Rvalue('path', s)


class Stmt:
    __slots__ = ('place', 'rv', 'raw')

    def __init__(self, place, rv, raw):
        self.place, self.rv, self.raw = place, rv, raw


class Term:
    __slots__ = ('kind', 'data', 'raw')

    def __init__(self, kind, raw, **data):
        self.kind, self.raw, self.data = kind, raw, data


def parse_targets(s):
    """'[return: bb1, unwind: bb30]' or 'unwind continue' -> dict"""
    s = s.strip()
    d = {}
    if s.startswith('['):
        for part in split_top(s[1:-1]):
            if ':' in part:
                k, v = part.split(':', 1)
                d[k.strip()] = v.strip()
            else:
                k, v = part.split(' ', 1)
                d[k.strip()] = v.strip()
    else:
        d['unwind'] = s
    return d


def parse_line(s):
    """return Stmt or Term"""
    raw = s
    assert s.endswith(';'), s
    s = s[:-1]
    if s.startswith('goto -> '):
        return Term('goto', raw, target=s[8:].strip())
    if s in ('return', 'resume', 'unreachable', 'abort'):
        return Term(s, raw)
    if s.startswith('switchInt('):
        j = match_close(s, len('switchInt'))
        op = parse_operand(s[len('switchInt('):j])
        rest = s[j + 1:].strip()
        assert rest.startswith('-> ')
        targets = []
        for part in split_top(rest[3:].strip()[1:-1]):
            k, v = part.rsplit(':', 1)
            targets.append((k.strip(), v.strip()))
        return Term('switchInt', raw, op=op, targets=targets)
    if s.startswith('drop('):
        j = match_close(s, 4)
        return Term('drop', raw, place=parse_place(s[5:j]), targets=parse_targets(s[j + 1:].strip()[3:]))
    if s.startswith('assert('):
        j = match_close(s, 6)
        parts = split_top(s[7:j])
        cond = parts[0]
        neg = cond.startswith('!')
        if neg:
            cond = cond[1:]
        return Term('assert', raw, cond=parse_operand(cond), expected=not neg, msg=parts[1] if len(parts) > 1 else '',
                    targets=parse_targets(s[j + 1:].strip()[3:]))
    if s.startswith(('StorageLive(', 'StorageDead(', 'nop', 'Retag(', 'PlaceMention(', 'FakeRead(', 'Coverage', 'ConstEvalCounter', 'AscribeUserType')):
        return Stmt(None, None, raw)
    # assignment or call
    k = find_top(s, ' = ')
    arrow = find_top(s, '->')
    if k >= 0 and (arrow < 0 or k < arrow):
        lhs, rhs = s[:k], s[k + 3:]
        arrow = find_top(rhs, '->')
        if arrow >= 0:
            call = rhs[:arrow].strip()
            targets = parse_targets(rhs[arrow + 2:])
            p = find_call_paren(call)
            func = call[:p].strip()
            args = [x for x in split_top(call[p + 1:-1]) if x != '']
            return Term('call', raw, dest=parse_place(lhs), func=func, args=[parse_operand(a) for a in args], targets=targets)
        return Stmt(parse_place(lhs), parse_rvalue(rhs), raw)
    if arrow >= 0:
        # diverging call without destination?
        call = s[:arrow].strip()
        p = find_call_paren(call)
        return Term('call', raw, dest=None, func=call[:p].strip(), args=[parse_operand(a) for a in split_top(call[p + 1:-1]) if a != ''],
                    targets=parse_targets(s[arrow + 2:]))
    if s.startswith('deinit(') or s.startswith('discriminant('):
        return Stmt(None, None, raw)
    raise ValueError('line? ' + raw)


def find_call_paren(call):
    """index of the '(' that opens the argument list: the last top-level '(' whose match is the final char"""
    assert call.endswith(')'), call
    # walk top-level parens
    cands = [i for i, c in scan_top(call) if c == '(']
    for i in cands:
        if match_close(call, i) == len(call) - 1:
            return i
    raise ValueError('call? ' + call)


class Block:
    def __init__(self, name, cleanup):
        self.name, self.cleanup, self.stmts, self.term = name, cleanup, [], None


class Body:
    def __init__(self, name, params, ret):
        self.name, self.params, self.ret = name, params, ret
        self.locals = {}
        self.blocks = {}
        self.kind = 'fn'
        self.span_line = None
        self.debug = {}


def parse_header(line):
    # fn NAME(PARAMS) -> RET {      NAME may contain '(' only inside <...>
    assert line.startswith('fn ') and line.endswith('{')
    s = line[3:-1].strip()
    p = None
    for i, c in scan_top(s):
        if c == '(':
            p = i
            break
    j = match_close(s, p)
    name = s[:p]
    params = []
    for part in split_top(s[p + 1:j]):
        if not part:
            continue
        k = part.index(':')
        params.append((int(part[1:k]), part[k + 1:].strip()))
    rest = s[j + 1:].strip()
    ret = rest[2:].strip() if rest.startswith('->') else '()'
    return name, params, ret


def parse_mir(text):
    lines = text.split('\n')
    bodies = []
    consts = {}
    allocs = {}
    i = 0
    n = len(lines)
    cur = None
    blk = None
    errors = []
    while i < n:
        line = lines[i]
        s = line.strip()
        if cur is None:
            if line.startswith('fn '):
                name, params, ret = parse_header(s)
                cur = Body(name, params, ret)
                cur.span_line = i + 1
                for idx, ty in params:
                    cur.locals[idx] = ty
            elif line.startswith('const ') or line.startswith('static '):
                m = None
                s2 = re.sub(r'^(?:const|static(?: mut)?) ', '', s)
                k1 = find_top(s2, ': ')
                k2 = find_top(s2, ' = ')
                if k1 >= 0 and k2 > k1:
                    class _M:
                        def __init__(self, g): self.g = g
                        def group(self, i): return self.g[i]
                    m = _M([None, s2[:k1], s2[k1 + 2:k2], s2[k2 + 3:]])
                if m and m.group(3).strip() == '{':
                    cur = Body(m.group(1), [], m.group(2))
                    cur.kind = 'const'
                elif m:
                    consts[m.group(1)] = (m.group(2), m.group(3).rstrip(';'))
                else:
                    # e.g. "impl_num::...::{constant#0}: usize = {"
                    errors.append((i + 1, s))
            elif re.match(r'alloc\d+ \(', s):
                m = re.match(r'(alloc\d+) \(size: (\d+)', s)
                nm = m.group(1)
                data = []
                if not s.endswith('{}'):
                    i += 1
                    while not lines[i].strip() == '}':
                        row = lines[i].strip()
                        # "0x00 │ 65 78 ... │ text"  or "65 78 │ text"
                        cols = row.split('│')
                        hexpart = cols[1] if len(cols) >= 3 else cols[0]
                        data += [int(h, 16) for h in hexpart.split() if re.fullmatch(r'[0-9a-f]{2}', h)]
                        i += 1
                allocs[nm] = bytes(data)
            elif re.match(r'.*\{constant#\d+\}: .* = \{$', s) or re.match(r'^[A-Za-z_<].*: .* = \{$', s):
                m = re.match(r'(.*?): (.*) = \{$', s)
                cur = Body(m.group(1), [], m.group(2))
                cur.kind = 'const'
            i += 1
            continue
        # inside a body
        if line == '}':
            bodies.append(cur)
            cur = None
            blk = None
            i += 1
            continue
        if blk is None:
            m = re.match(r'let (mut )?_(\d+): (.*);$', s)
            md = re.match(r'debug (\w+) => _(\d+);$', s)
            if md:
                cur.debug.setdefault(md.group(1), int(md.group(2)))
            elif m:
                cur.locals[int(m.group(2))] = m.group(3)
            else:
                m = re.match(r'(bb\d+)( \(cleanup\))?: \{$', s)
                if m:
                    blk = Block(m.group(1), bool(m.group(2)))
            i += 1
            continue
        # inside a block
        if s == '}':
            cur.blocks[blk.name] = blk
            blk = None
            i += 1
            continue
        if not s or s.startswith('//'):
            i += 1
            continue
        # statements can span lines? join until ';' at end
        stmt = s
        while not stmt.endswith(';'):
            i += 1
            stmt += ' ' + lines[i].strip()
        try:
            x = parse_line(stmt)
            if isinstance(x, Term):
                blk.term = x
            else:
                blk.stmts.append(x)
        except Exception as e:
            errors.append((i + 1, stmt, repr(e)))
        i += 1
    return bodies, consts, allocs, errors


if __name__ == '__main__':
    text = open(sys.argv[1]).read()
    bodies, consts, allocs, errors = parse_mir(text)
    print('bodies', len(bodies), 'consts', len(consts), 'allocs', len(allocs), 'errors', len(errors))
    for e in errors[:40]:
        print(e)
    kinds = collections.Counter()
    for b in bodies:
        for blk in b.blocks.values():
            for st in blk.stmts:
                if st.rv is not None:
                    kinds[st.rv.kind] += 1
            if blk.term is None:
                print('no term', b.name, blk.name)
            else:
                kinds['T:' + blk.term.kind] += 1
    print(kinds)
