"""Common harness machinery: program loading, path exploration with post-condition checking,
parallel sharding, native replay, known findings, evidence files, exit codes."""
import collections
import hashlib
import json
import multiprocessing
import os
import random
import subprocess
import sys
import time
import traceback

sys.set_int_max_str_digits(0)
import z3

from . import mirgen
from . import engine as E
from . import summaries as S

VERIF = mirgen.VERIF
EVIDENCE_DIR = os.path.join(VERIF, 'evidence') if not mirgen.ALT_REPO else os.path.join(mirgen.SCRATCH, 'evidence')
REPLAY_DIR = os.path.join(VERIF, 'replays') if not mirgen.ALT_REPO else os.path.join(mirgen.SCRATCH, 'replays')
KNOWN_FINDINGS = os.path.join(VERIF, 'known_findings.json')

NPROC = int(os.environ.get('VERIF_NPROC', '16'))

_programs = {}
_program_info = {}


def get_program(features=(), env=None, debug_assertions=False):
    ambient = {k: v for k, v in os.environ.items() if k.startswith('RUST_BIGDECIMAL_')}
    key = mirgen.config_key(features, dict(ambient, **(env or {})), debug_assertions)
    if key not in _programs:
        text, info = mirgen.mir_text(features, env, debug_assertions)
        t0 = time.time()
        _programs[key] = E.Program(text)
        info['parse_s'] = round(time.time() - t0, 2)
        info['bodies'] = len(_programs[key].bodies)
        _program_info[key] = info
    return _programs[key]


def program_info():
    return dict(_program_info)


def seed():
    try:
        return int(os.environ.get('VERIF_SEED', '0'))
    except ValueError:
        return 0


def rng(salt=''):
    return random.Random('%d/%s' % (seed(), salt))


# ------------------------------------------------------------------------------------------ exploration

class Violation(dict):
    pass


def model_ints(m, wrong, witness):
    """solve PC ∧ wrong and return {name: python int/bool} for the witness terms"""
    m.solver.push()
    try:
        if wrong is not None and wrong is not True:
            m.solver.add(wrong)
        r = m.solver.check()
        if r == z3.sat:
            mdl = m.solver.model()
        else:
            r, mdl = m.check_fresh(wrong if (wrong is not None and wrong is not True) else True, want_model=True)
            if r != z3.sat:
                return None
        out = {}
        for k, t in witness.items():
            if E.is_sym(t):
                v = mdl.eval(t, model_completion=True)
                if z3.is_int_value(v):
                    out[k] = v.as_long()
                elif z3.is_true(v):
                    out[k] = True
                elif z3.is_false(v):
                    out[k] = False
                else:
                    out[k] = str(v)
            else:
                out[k] = t
        return out
    finally:
        m.solver.pop()


def explore_task(prog, run_path, task=None, loop_bound=200, timeout_ms=30000, max_paths=200000, max_violations=3,
                 deadline_s=None, panic_is_violation=True):
    """Explore every feasible path of run_path(m).

    run_path returns a list of obligations [(label, wrong_condition)] (wrong_condition: z3 Bool / python bool that
    must be UNSAT together with the path condition) — or None.  m.witness (dict name -> term) names the inputs.
    """
    t0 = time.time()
    stats = E.Stats()
    worklist = [()]
    res = {'task': task, 'paths': 0, 'outcomes': collections.Counter(), 'violations': [], 'inconclusive': [],
           'labels': set(), 'obligations': 0, 'samples': []}
    while worklist:
        if deadline_s is not None and time.time() - t0 > deadline_s:
            res['inconclusive'].append({'kind': 'deadline', 'detail': 'task exceeded %ss with %d prefixes pending' % (deadline_s, len(worklist))})
            break
        prefix = worklist.pop()
        m = E.Machine(prog, prefix, worklist, stats, loop_bound=loop_bound, timeout_ms=timeout_ms)
        m.witness = {}
        stats.paths += 1
        try:
            obligations = run_path(m) or []
            res['outcomes']['return'] += 1
            # reachability witness: the path condition itself must be satisfiable (an `assert false` twin would fail here)
            if not m.feasible(True if not m.pc else z3.BoolVal(True)):
                res['outcomes']['return'] -= 1
                res['outcomes']['infeasible'] += 1
                continue
            for label, wrong in obligations:
                res['obligations'] += 1
                if wrong is False:
                    continue
                if wrong is True or m.feasible(wrong):
                    mdl = model_ints(m, wrong, m.witness)
                    if len(res['violations']) < max_violations:
                        res['violations'].append({'kind': 'postcondition', 'detail': label, 'model': mdl, 'task': task})
                    res['outcomes']['violated'] += 1
            if len(res['samples']) < 1:
                res['samples'].append({'task': task, 'decisions': len(m.decisions), 'path_condition_conjuncts': len(m.pc),
                                       'obligations': [l for l, _ in obligations], 'verdict': 'unsat (holds)' if not res['violations'] else 'sat'})
        except E.Infeasible:
            res['outcomes']['infeasible'] += 1
        except E.Panic as p:
            res['outcomes']['panic'] += 1
            if panic_is_violation:
                try:
                    mdl = model_ints(m, None, m.witness)
                except Exception:
                    mdl = None
                if len(res['violations']) < max_violations:
                    res['violations'].append({'kind': 'panic', 'detail': str(p)[:300], 'model': mdl, 'task': task})
        except E.BoundExceeded as e:
            res['outcomes']['bound'] += 1
            if len(res['inconclusive']) < 5:
                res['inconclusive'].append({'kind': 'bound', 'detail': str(e)[:300]})
        except E.Unsupported as e:
            res['outcomes']['unsupported'] += 1
            if len(res['inconclusive']) < 5:
                res['inconclusive'].append({'kind': 'unsupported', 'detail': str(e)[:300]})
        res['labels'] |= m.labels
        if stats.paths >= max_paths:
            res['inconclusive'].append({'kind': 'bound', 'detail': 'max_paths %d reached' % max_paths})
            break
    res['paths'] = stats.paths
    res['checks'] = stats.solver_checks
    res['solver_s'] = stats.solver_time
    res['steps'] = stats.steps
    res['funcs'] = stats.funcs
    res['summaries'] = stats.summaries
    res['wall_s'] = time.time() - t0
    return res


# ------------------------------------------------------------------------------------------ parallel

_worker_fn = None


class TaskTimeout(Exception):
    pass


def _alarm(signum, frame):
    raise TaskTimeout()


TASK_TIMEOUT = int(os.environ.get('VERIF_TASK_TIMEOUT', '900'))


def _run_one(params):
    import signal
    t0 = time.time()
    try:
        import faulthandler
        faulthandler.register(signal.SIGUSR1, all_threads=False)
        signal.signal(signal.SIGALRM, _alarm)
        signal.alarm(TASK_TIMEOUT)
        try:
            r = _worker_fn(params)
        finally:
            signal.alarm(0)
        if time.time() - t0 > 60:
            sys.stderr.write('  [slow task %.0fs] %s\n' % (time.time() - t0, json.dumps(_jsonable(params))[:300]))
        if isinstance(r, list):
            return r
        return [r]
    except BaseException as e:
        return [{'task': params, 'paths': 0, 'outcomes': collections.Counter(), 'violations': [],
                 'inconclusive': [{'kind': 'engine-error', 'detail': '%s: %s' % (type(e).__name__, traceback.format_exc()[-1500:])}],
                 'labels': set(), 'obligations': 0, 'samples': [], 'checks': 0, 'solver_s': 0.0, 'steps': 0,
                 'funcs': collections.Counter(), 'summaries': collections.Counter(), 'wall_s': 0.0}]


def run_parallel(tasks, worker_fn, nproc=None, progress=None):
    """tasks: list of picklable params; worker_fn(params) -> result dict (or list of them). Fork-based pool."""
    global _worker_fn
    _worker_fn = worker_fn
    nproc = nproc or NPROC
    out = []
    t0 = time.time()
    if nproc <= 1 or len(tasks) <= 1:
        for i, t in enumerate(tasks):
            out += _run_one(t)
        return out
    ctx = multiprocessing.get_context('fork')
    with ctx.Pool(min(nproc, len(tasks))) as pool:
        for i, r in enumerate(pool.imap_unordered(_run_one, tasks, chunksize=1)):
            out += r
            if progress and (i + 1) % progress == 0:
                sys.stderr.write('  [%d/%d tasks, %.0fs]\n' % (i + 1, len(tasks), time.time() - t0))
    return out


# ------------------------------------------------------------------------------------------ native replay

REPLAY_CRATE = os.path.join(VERIF, 'replay')
_replay_bin = {}


def build_replay(profile='release', cfg_env=None):
    """(re)build the native replay binary against /repo's current tree; returns path of the binary.
    cfg_env: RUST_BIGDECIMAL_* build-time configuration (separate target directory)"""
    key = (profile, tuple(sorted((cfg_env or {}).items())))
    if key in _replay_bin:
        return _replay_bin[key]
    from . import replaygen
    crate_root = REPLAY_CRATE
    if mirgen.ALT_REPO:
        # copies of the replay crates whose path dependency points at the alternative repository
        import shutil as _sh
        for name in ('replay', 'replay_serde'):
            dst = os.path.join(mirgen.SCRATCH, name)
            if not os.path.exists(dst):
                _sh.copytree(os.path.join(VERIF, name), dst, ignore=_sh.ignore_patterns('target'))
                ct = os.path.join(dst, 'Cargo.toml')
                txt = open(ct).read().replace('path = "/repo"', 'path = "%s"' % os.path.realpath(mirgen.REPO))
                with open(ct, 'w') as fh:
                    fh.write(txt)
        crate_root = os.path.join(mirgen.SCRATCH, 'replay')
    replaygen.generate()
    serde = bool(cfg_env and cfg_env.get('VERIF_REPLAY_FEATURES') == 'serde')
    if serde:
        cfg_env = {k: v for k, v in cfg_env.items() if k != 'VERIF_REPLAY_FEATURES'}
    tdir = os.path.join(mirgen.SCRATCH, 'replay-target-serde' if serde else ('replay-target' if not cfg_env else 'replay-target-cfg'))
    cmd = ['cargo', 'build', '--offline', '--target-dir', tdir]
    if profile == 'release':
        cmd.append('--release')
    env = dict(os.environ)
    for k in list(env):
        if k.startswith('RUST_BIGDECIMAL_'):
            del env[k]
    env.update(cfg_env or {})
    env['CARGO_NET_OFFLINE'] = 'true'
    os.makedirs(mirgen.SCRATCH, exist_ok=True)
    lock = open(os.path.join(mirgen.SCRATCH, 'replay-build.lock'), 'w')
    import fcntl
    fcntl.flock(lock, fcntl.LOCK_EX)
    try:
        p = subprocess.run(cmd, cwd=crate_root + ('_serde' if serde else ''), env=env, stdout=subprocess.PIPE, stderr=subprocess.PIPE)
    finally:
        fcntl.flock(lock, fcntl.LOCK_UN)
    if p.returncode != 0:
        sys.stderr.write(p.stderr.decode()[-3000:])
        raise RuntimeError('replay build failed')
    src = os.path.join(tdir, 'release' if profile == 'release' else 'debug', 'replay_serde' if serde else 'replay')
    # private copy so that a concurrent rebuild by another check cannot swap the file under us
    dst = os.path.join(mirgen.SCRATCH, 'replay-%s-%d-%d' % (profile, os.getpid(), len(_replay_bin)))
    import shutil
    shutil.copy2(src, dst)
    import atexit
    atexit.register(lambda: os.path.exists(dst) and os.remove(dst))
    _replay_bin[key] = dst
    return dst


def replay_lines(lines, profile='release', timeout=120, cfg_env=None):
    """send request lines to the native binary, return list of response lines (same order)"""
    if not lines:
        return []
    binp = build_replay(profile, cfg_env)
    p = subprocess.run([binp], input=('\n'.join(lines) + '\n').encode(), stdout=subprocess.PIPE, stderr=subprocess.PIPE, timeout=timeout)
    out = p.stdout.decode().split('\n')
    if out and out[-1] == '':
        out.pop()
    if len(out) != len(lines):
        raise RuntimeError('replay: %d requests, %d responses; stderr=%s' % (len(lines), len(out), p.stderr.decode()[-500:]))
    return out


def dec_str(i, s):
    return '%d:%d' % (i, s)


def parse_dec(s):
    i, sc = s.rsplit(':', 1)
    return int(i), int(sc)


# ------------------------------------------------------------------------------------------ findings, evidence, exit

def load_known_findings(prop):
    if not os.path.exists(KNOWN_FINDINGS):
        return []
    data = json.load(open(KNOWN_FINDINGS))
    return [f for f in data.get('findings', []) if f.get('property') == prop]


def write_replay_file(prop, violation):
    os.makedirs(os.path.join(REPLAY_DIR, prop), exist_ok=True)
    blob = json.dumps(violation, sort_keys=True, default=str)
    h = hashlib.sha256(blob.encode()).hexdigest()[:16]
    path = os.path.join(REPLAY_DIR, prop, h + '.json')
    with open(path, 'w') as fh:
        fh.write(json.dumps(violation, indent=1, sort_keys=True, default=str))
    return path


def _jsonable(x):
    if isinstance(x, (collections.Counter, dict)):
        return {str(k): _jsonable(v) for k, v in x.items()}
    if isinstance(x, (set, frozenset)):
        return sorted(str(v) for v in x)
    if isinstance(x, (list, tuple)):
        return [_jsonable(v) for v in x]
    if isinstance(x, int) and not isinstance(x, bool) and abs(x) > 2 ** 62:
        return str(x)
    if isinstance(x, (int, float, str, bool)) or x is None:
        return x
    return str(x)


def probe_violation(rep, prop, detail, task, model, native):
    """a concrete input on which the NATIVELY compiled crate breaks the exact oracle (found while pushing the validation corpus
    through the real build): reported as a violation of its own, marked native-probe.  A pass is never concluded from probing."""
    if len([v for v in rep.confirmed if v.get('kind') == 'native-probe']) >= 4:
        return
    v = {'kind': 'native-probe', 'detail': detail, 'task': task, 'model': model, 'native': native}
    v['replay_file'] = write_replay_file(prop, v)
    rep.confirmed.append(v)


class Report:
    """aggregates task results of one check run and decides the exit code"""

    def __init__(self, prop, tier):
        self.prop, self.tier = prop, tier
        self.t0 = time.time()
        self.results = []
        self.required_labels = set()
        self.bounds = {}
        self.assumptions = []
        self.outside = []
        self.validated = 0
        self.validation_mismatches = []
        self.extra = {}
        self.notes = []
        self.kani = []
        self.confirmed = []      # replay-confirmed violations (not known)
        self.known_hits = []     # (finding, violation)
        self.unconfirmed = []    # models that did not reproduce natively

    def add(self, results):
        self.results += results

    def finish(self):
        paths = sum(r['paths'] for r in self.results)
        feasible = sum(r['paths'] - r['outcomes'].get('infeasible', 0) for r in self.results)
        checks = sum(r['checks'] for r in self.results)
        solver_s = sum(r['solver_s'] for r in self.results)
        obligations = sum(r['obligations'] for r in self.results)
        labels = set()
        funcs = collections.Counter()
        sums = collections.Counter()
        outcomes = collections.Counter()
        inconclusive = []
        for r in self.results:
            labels |= set(r['labels'])
            funcs.update(r['funcs'])
            sums.update(r['summaries'])
            outcomes.update(r['outcomes'])
            for i in r['inconclusive']:
                inconclusive.append(dict(i, task=r['task']))
        missing = sorted(self.required_labels - labels)
        samples = []
        for r in self.results:
            for s in r['samples']:
                if len(samples) < 6:
                    samples.append(_jsonable(s))
        if not samples:
            samples = [{'note': 'no path sample recorded'}]
        status = 0
        if inconclusive or missing or self.unconfirmed or self.validation_mismatches:
            status = 2
        if self.confirmed:
            status = 1
        ev = {
            'property_id': self.prop,
            'tier': self.tier,
            'seed': seed(),
            'level': 'model_checking',
            'wall_s': round(time.time() - self.t0, 2),
            'violations': len(self.confirmed),
            'coverage': {
                'states': max(feasible, 0),
                'transitions': checks,
                'traces_validated_against_impl': self.validated,
                'samples': samples,
                'obligations': obligations,
                'paths_including_infeasible_prefixes': paths,
                'path_outcomes': _jsonable(outcomes),
                'tasks': len(self.results),
                'queries': checks,
                'solver_time_s': round(solver_s, 2),
                'functions_encoded': _jsonable(dict(sorted(funcs.items(), key=lambda kv: -kv[1])[:400])),
                'functions_encoded_count': len(funcs),
                'summaries_used': _jsonable(dict(sums)),
                'coverage_labels': sorted(labels),
                'required_labels_missing': missing,
                'bounds': _jsonable(self.bounds),
                'outside_claim': self.outside,
                'mir': _jsonable(program_info()),
                'known_findings_reproduced': [_jsonable(k[0].get('id')) for k in self.known_hits],
                'inconclusive': _jsonable(inconclusive[:20]),
                'unconfirmed_models': _jsonable(self.unconfirmed[:10]),
                'validation_mismatches': _jsonable(self.validation_mismatches[:10]),
                'kani': _jsonable(self.kani),
                'exit_status': status,
            },
            'assumptions': self.assumptions,
        }
        ev['coverage'].update(_jsonable(self.extra))
        if ev['coverage']['states'] < 1 or ev['coverage']['transitions'] < 1:
            status = status or 2
            ev['coverage']['states'] = max(1, ev['coverage']['states'])
            ev['coverage']['transitions'] = max(1, ev['coverage']['transitions'])
            ev['coverage']['exit_status'] = status
        os.makedirs(EVIDENCE_DIR, exist_ok=True)
        with open(os.path.join(EVIDENCE_DIR, self.prop + '.json'), 'w') as fh:
            json.dump(ev, fh, indent=1)
        # ---- console
        print('%s tier=%s seed=%d tasks=%d paths=%d feasible=%d obligations=%d solver_calls=%d solver=%.1fs wall=%.1fs' % (
            self.prop, self.tier, seed(), len(self.results), paths, feasible, obligations, checks, solver_s, time.time() - self.t0))
        for n in self.notes:
            print('note: ' + n)
        for f, v in self.known_hits:
            print('KNOWN-FINDING: property=%s %s' % (self.prop, f.get('what', f.get('id'))))
        for v in self.confirmed[:12]:
            print('VIOLATION property=%s replay=%s' % (self.prop, v['replay_file']))
            print('  ' + json.dumps(_jsonable({k: v[k] for k in v if k in ('kind', 'detail', 'native', 'task')}))[:600])
        if status == 2:
            for i in inconclusive[:8]:
                print('INCONCLUSIVE: %s' % json.dumps(_jsonable(i))[:500])
            if missing:
                print('INCONCLUSIVE: vacuity - coverage labels never reached: %s' % missing)
            for u in self.unconfirmed[:5]:
                print('INCONCLUSIVE: model does not reproduce natively: %s' % json.dumps(_jsonable(u))[:500])
            for u in self.validation_mismatches[:5]:
                print('INCONCLUSIVE: encoder/native mismatch: %s' % json.dumps(_jsonable(u))[:500])
        print('%s: %s' % (self.prop, {0: 'HOLDS within the stated bounds', 1: 'VIOLATED', 2: 'INCONCLUSIVE'}[status]))
        return status
