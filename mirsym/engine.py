"""Spike: forking symbolic executor over parsed MIR, z3 Int theory.  (feasibility prototype)"""
import re, sys, time, collections, os
_t0 = time.time()
import z3
from .mirparse import parse_mir, Place, Operand, Rvalue, Stmt, Term, split_top, match_close, find_top
from .resolve import Index, parse_ty, strip_lifetimes, unify, last_seg, PRIMS

INT_RANGE = {}
for n in (8, 16, 32, 64, 128):
    INT_RANGE['u%d' % n] = (0, 2 ** n - 1)
    INT_RANGE['i%d' % n] = (-2 ** (n - 1), 2 ** (n - 1) - 1)
INT_RANGE['usize'] = INT_RANGE['u64']
INT_RANGE['isize'] = INT_RANGE['i64']


def is_sym(x):
    return isinstance(x, z3.ExprRef)


class Agg:
    """struct / tuple / enum / closure value"""
    __slots__ = ('kind', 'name', 'fields', 'variant')

    def __init__(self, kind, name, fields, variant=None):
        self.kind, self.name, self.fields, self.variant = kind, name, list(fields), variant

    def __repr__(self):
        v = '' if self.variant is None else '::%s' % (self.variant,)
        return '%s%s%r' % (self.name, v, self.fields)


class Ref:
    __slots__ = ('cont', 'key')

    def __init__(self, cont, key):
        self.cont, self.key = cont, key

    def get(self):
        return self.cont[self.key]

    def set(self, v):
        self.cont[self.key] = v

    def __repr__(self):
        return '&%r' % (self.cont[self.key] if self.key in self.cont or isinstance(self.cont, list) else None,)


class FnItem:
    def __init__(self, path):
        self.path = path

    def __repr__(self):
        return 'fn{%s}' % self.path


UNINIT = object()


def copy_val(v):
    if isinstance(v, Agg) and v.kind == 'boxptr':
        return v   # pointer semantics
    if isinstance(v, Agg):
        return Agg(v.kind, v.name, [copy_val(f) for f in v.fields], v.variant)
    if isinstance(v, list):
        return [copy_val(x) for x in v]
    return v


class PathEnd(Exception):
    pass


class Panic(PathEnd):
    def __init__(self, kind, msg=''):
        self.kind, self.msg = kind, msg

    def __str__(self):
        return 'Panic(%s,%s)' % (self.kind, self.msg)


class Unsupported(PathEnd):
    pass


class Infeasible(PathEnd):
    pass


class CutReached(PathEnd):
    def __init__(self, frame):
        self.frame = frame


class BoundExceeded(PathEnd):
    pass


ENUM_VARIANTS = {
    'Option': ['None', 'Some'],
    'Result': ['Ok', 'Err'],
    'Ordering': {'Less': -1, 'Equal': 0, 'Greater': 1},
    'Sign': ['Minus', 'NoSign', 'Plus'],
    'RoundingMode': ['Up', 'Down', 'Ceiling', 'Floor', 'HalfUp', 'HalfDown', 'HalfEven'],
    'Cow': ['Borrowed', 'Owned'],
    'ParseBigDecimalError': ['ParseDecimal', 'ParseInt', 'ParseBigInt', 'Empty', 'Other'],
}


def variant_index(enum, variant):
    tab = ENUM_VARIANTS[enum]
    if isinstance(tab, dict):
        return tab[variant]
    return tab.index(variant)


def mk_enum(enum, variant, fields=()):
    return Agg('enum', enum, fields, variant)


def ordering(v):
    return mk_enum('Ordering', {-1: 'Less', 0: 'Equal', 1: 'Greater'}[v])


def sign_of_const(v):
    return mk_enum('Sign', 'Minus' if v < 0 else ('NoSign' if v == 0 else 'Plus'))


class Frame:
    def __init__(self, body, tyenv):
        self.body = body
        self.locals = {}
        self.tyenv = tyenv


class Program:
    def __init__(self, mir_text):
        self.bodies, self.consts, self.allocs, errs = parse_mir(mir_text)
        assert not errs, errs[:3]
        self.index = Index(self.bodies)
        self.by_name = {b.name: b for b in self.bodies}
        self.closures = {}
        for b in self.bodies:
            if '{closure#' in b.name and b.params:
                t = strip_lifetimes(b.params[0][1])
                t = t.lstrip('&')
                if t.startswith('mut '):
                    t = t[4:]
                self.closures[t] = b
        self._generics = {}
        self.promoted = {}
        for b in self.bodies:
            m = re.match(r'^(.*)::promoted\[(\d+)\]$', b.name)
            if m:
                fn_tail = re.sub(r'<impl at [^>]*>', '<impl>', m.group(1))
                self.promoted[(last_fn_name(m.group(1)), int(m.group(2)))] = b


def _source_generics(name):
    """ordered type parameters of `fn name<...>` read from the repository source (None if not found / not generic)"""
    import glob
    from .mirgen import REPO
    base = name.split('::')[-1]
    rx = re.compile(r'fn\s+' + re.escape(base) + r'\s*<([^>(]*(?:<[^>]*>[^>(]*)*)>\s*\(')
    found = []
    for p in sorted(glob.glob(os.path.join(REPO, 'src', '**', '*.rs'), recursive=True)):
        for mo in rx.finditer(open(p).read()):
            gens = [g.strip() for g in split_top(mo.group(1)) if g.strip()]
            gens = [re.split(r'[:\s]', g)[0] for g in gens if not g.startswith("'")]
            found.append(gens)
    if len(found) == 1:
        return found[0]
    if found and all(x == found[0] for x in found):
        return found[0]
    return None


def _generics_of(self, d):
    if d.name not in self._generics:
        self._generics[d.name] = _source_generics(d.method)
    return self._generics[d.name]


Program.generics_of = _generics_of


def last_fn_name(path):
    # the function part of a promoted's path: everything after the last impl marker, stripped of module prefixes & generics
    p = re.sub(r'<impl[^>]*>', 'IMPL', strip_lifetimes(path))
    p = re.sub(r'::<[^>]*>', '', p)
    segs = p.split('::')
    # keep trailing segments from the last 'IMPL' or the last module-like seg
    out = []
    for s in reversed(segs):
        out.append(s)
        if s == 'IMPL' or not s.startswith('{'):
            if s != 'IMPL' and not s.startswith('{'):
                break
    return '::'.join(reversed(out))


class Stats:
    def __init__(self):
        self.paths = 0
        self.solver_checks = 0
        self.solver_time = 0.0
        self.steps = 0
        self.funcs = collections.Counter()
        self.summaries = collections.Counter()
        self.outcomes = collections.Counter()


DEFAULT_OVERRIDES = []
INCREMENTAL_TIMEOUT_MS = 4000
TDIV = z3.Function('tdiv', z3.IntSort(), z3.IntSort(), z3.IntSort())
TREM = z3.Function('trem', z3.IntSort(), z3.IntSort(), z3.IntSort())


FLOAT_TOKEN_NAMES = ('ParsedF64', 'BigToF64', 'PowiF64', 'F64Prod', 'F64Quot', 'IntToF64')


class Machine:
    """executes ONE path, following `prefix` decisions then exploring first feasible alternative of new ones"""

    def __init__(self, prog, prefix, worklist, stats, loop_bound=200, timeout_ms=20000):
        self.prog = prog
        self.prefix = prefix
        self.decisions = []
        self.worklist = worklist
        self.stats = stats
        self.solver = z3.Solver()
        self.solver.set('timeout', min(timeout_ms, INCREMENTAL_TIMEOUT_MS))
        self.fresh_timeout_ms = timeout_ms
        self.pc = []
        self.fresh_n = 0
        self.loop_bound = loop_bound
        self.depth = 0
        self.labels = set()
        self.frames = []
        self.trace = []
        self.trace_funcs = set()
        self.overrides = list(DEFAULT_OVERRIDES)
        self.witness = {}
        self._splits = {}
        self.var_bounds = {}
        self.aux_pc = set()
        self.aux_vars = set()
        self.aux_used = False

    def cur_tyenv(self):
        return self.frames[-1].tyenv if self.frames else {}

    # ------------------------------------------------------------ solver / forking
    def fresh(self, name):
        self.fresh_n += 1
        return z3.Int('%s!%d' % (name, self.fresh_n))

    def assume(self, c, aux=False):
        """aux: the constraint only defines fresh auxiliary variables (e.g. the digits of an integer already in the
        path condition); a fresh-solver query may first be tried without it (dropping a premise is sound for unsat)"""
        if c is True:
            return
        if c is False:
            raise Infeasible()
        if aux:
            self.aux_pc.add(len(self.pc))
        elif self.aux_vars and self._mentions_aux(c):
            self.aux_used = True
        self.pc.append(c)
        self.solver.add(c)

    def mark_aux(self, vs):
        """vs: fresh variables constrained only by aux assumptions that are satisfiable for every valuation of the
        other variables allowed by the rest of the path condition (a conservative extension)"""
        self.aux_vars.update(v.get_id() for v in vs)

    def _mentions_aux(self, t):
        if not is_sym(t):
            return False
        seen, stack = set(), [t]
        while stack:
            e = stack.pop()
            i = e.get_id()
            if i in seen:
                continue
            seen.add(i)
            if i in self.aux_vars:
                return True
            stack.extend(e.children())
        return False

    def feasible(self, c):
        if c is True:
            return True
        if c is False:
            return False
        self.solver.push()
        self.solver.add(c)
        t = time.time()
        r = self.solver.check()
        self.stats.solver_time += time.time() - t
        self.stats.solver_checks += 1
        self.solver.pop()
        if r == z3.unknown:
            r = self.check_fresh(c)[0]
        if r == z3.unknown:
            raise Unsupported('solver unknown')
        return r == z3.sat

    def check_fresh(self, c, want_model=False):
        """decide PC ∧ c from scratch (non-incremental: z3's preprocessing makes many queries that stall the
        incremental core easy); returns (result, model or None)"""
        self.stats.fresh_checks = getattr(self.stats, 'fresh_checks', 0) + 1
        extra = [c] if c is not True and c is not None else []
        goals = list(self.pc) + extra
        attempts = [(lambda: z3.Tactic('qflia').solver(), goals, self.fresh_timeout_ms), (lambda: z3.Solver(), goals, self.fresh_timeout_ms)]
        if self.aux_pc and not want_model:
            relaxed = [g for i, g in enumerate(self.pc) if i not in self.aux_pc] + extra
            attempts.insert(0, (lambda: z3.Tactic('qflia').solver(), relaxed, self.fresh_timeout_ms))
        for ai, (mk, gs, tmo) in enumerate(attempts):
            try:
                s = mk()
                s.set('timeout', tmo)
                s.add(gs)
                t = time.time()
                r = s.check()
                self.stats.solver_time += time.time() - t
                self.stats.solver_checks += 1
                if gs is not goals:
                    if r == z3.unsat:            # unsat without the auxiliary definitions => unsat with them
                        return r, None
                    if r == z3.sat and not self.aux_used and not any(self._mentions_aux(e) for e in extra):
                        return r, None           # conservative extension: the dropped definitions can always be satisfied
                    continue
                if r != z3.unknown:
                    return r, (s.model() if (want_model and r == z3.sat) else None)
            except z3.Z3Exception:
                continue
        return z3.unknown, None

    def choose(self, conds):
        """conds: list of z3 Bool/True/False, mutually exclusive & exhaustive. Returns chosen index, adds constraint."""
        pos = len(self.decisions)
        if pos < len(self.prefix):
            k = self.prefix[pos]
            self.decisions.append(k)
            self.assume(conds[k])
            return k
        # concrete shortcut
        trues = [i for i, c in enumerate(conds) if c is True]
        if trues:
            return trues[0]   # not a decision
        feas = [i for i, c in enumerate(conds) if self.feasible(c)]
        if not feas:
            raise Infeasible()
        for alt in feas[1:]:
            self.worklist.append(tuple(self.decisions) + (alt,))
        self.decisions.append(feas[0])
        self.assume(conds[feas[0]])
        return feas[0]

    def choose_n(self, n, cond_fn):
        """like choose() over cond_fn(0..n-1) but builds only the needed condition when replaying a prefix"""
        pos = len(self.decisions)
        if pos < len(self.prefix):
            k = self.prefix[pos]
            self.decisions.append(k)
            self.assume(cond_fn(k))
            return k
        return self.choose([cond_fn(i) for i in range(n)])

    # ---- cheap interval reasoning for fresh digit / word variables (saves solver calls in character loops)
    def set_bounds(self, var, lo, hi):
        self.var_bounds[var.get_id()] = (lo, hi)

    def interval(self, t, depth=0):
        if not is_sym(t):
            return (t, t) if isinstance(t, int) and not isinstance(t, bool) else None
        if z3.is_int_value(t):
            v = t.as_long()
            return (v, v)
        b = self.var_bounds.get(t.get_id())
        if b is not None:
            return b
        if depth > 3 or not z3.is_app(t):
            return None
        k = t.decl().kind()
        if k == z3.Z3_OP_ADD:
            lo = hi = 0
            for a in t.children():
                i = self.interval(a, depth + 1)
                if i is None:
                    return None
                lo, hi = lo + i[0], hi + i[1]
            return (lo, hi)
        if k == z3.Z3_OP_SUB and t.num_args() == 2:
            a, c = self.interval(t.arg(0), depth + 1), self.interval(t.arg(1), depth + 1)
            if a is None or c is None:
                return None
            return (a[0] - c[1], a[1] - c[0])
        if k == z3.Z3_OP_MUL and t.num_args() == 2:
            a, c = self.interval(t.arg(0), depth + 1), self.interval(t.arg(1), depth + 1)
            if a is None or c is None:
                return None
            ps = [a[0] * c[0], a[0] * c[1], a[1] * c[0], a[1] * c[1]]
            return (min(ps), max(ps))
        return None

    def quick_bool(self, b):
        """True / False when intervals of bounded fresh variables already decide the comparison, else None"""
        if not z3.is_app(b):
            return None
        k = b.decl().kind()
        if k == z3.Z3_OP_NOT:
            r = self.quick_bool(b.arg(0))
            return None if r is None else (not r)
        if b.num_args() != 2 or k not in (z3.Z3_OP_EQ, z3.Z3_OP_DISTINCT, z3.Z3_OP_LE, z3.Z3_OP_GE, z3.Z3_OP_LT, z3.Z3_OP_GT):
            return None
        if not self.var_bounds:
            return None
        l, r = self.interval(b.arg(0)), self.interval(b.arg(1))
        if l is None or r is None:
            return None
        disjoint = l[1] < r[0] or r[1] < l[0]
        if k == z3.Z3_OP_EQ:
            return False if disjoint else (True if l[0] == l[1] == r[0] == r[1] else None)
        if k == z3.Z3_OP_DISTINCT:
            return True if disjoint else (False if l[0] == l[1] == r[0] == r[1] else None)
        if k == z3.Z3_OP_LE:
            return True if l[1] <= r[0] else (False if l[0] > r[1] else None)
        if k == z3.Z3_OP_LT:
            return True if l[1] < r[0] else (False if l[0] >= r[1] else None)
        if k == z3.Z3_OP_GE:
            return True if l[0] >= r[1] else (False if l[1] < r[0] else None)
        if k == z3.Z3_OP_GT:
            return True if l[0] > r[1] else (False if l[1] <= r[0] else None)
        return None

    def branch_bool(self, b):
        """returns python bool for a possibly symbolic bool, forking"""
        if b is True or b is False:
            return b
        if isinstance(b, int) and not is_sym(b):
            return b != 0
        q = self.quick_bool(b)
        if q is not None:
            return q
        b = z3.simplify(b)
        if z3.is_true(b):
            return True
        if z3.is_false(b):
            return False
        k = self.choose([b, z3.Not(b)])
        return k == 0

    def few_values(self, x, limit):
        """None when the integer term has more than `limit` feasible values on this path (bounded enumeration), else True"""
        x = z3.simplify(x)
        if z3.is_int_value(x):
            return True
        if len(self.decisions) < len(self.prefix):
            return True            # replaying a recorded concretisation
        self.solver.push()
        try:
            n = 0
            while True:
                if self.solver.check() != z3.sat:
                    return True
                v = self.solver.model().eval(x, model_completion=True)
                self.solver.add(x != v)
                n += 1
                if n > limit:
                    return None
        finally:
            self.solver.pop()

    def single_valued(self, x):
        """True when the path condition pins the integer term to one value (two solver calls)"""
        x = z3.simplify(x)
        if z3.is_int_value(x):
            return True
        self.solver.push()
        try:
            if self.solver.check() != z3.sat:
                return True
            v = self.solver.model().eval(x, model_completion=True)
            self.solver.add(x != v)
            return self.solver.check() == z3.unsat
        finally:
            self.solver.pop()

    def concretize(self, x, lo=None, hi=None, limit=4096):
        """fork over all feasible values of integer term x"""
        if not is_sym(x):
            return x
        x = z3.simplify(x)
        if z3.is_int_value(x):
            return x.as_long()
        pos = len(self.decisions)
        if pos < len(self.prefix):
            v = self.prefix[pos]
            self.decisions.append(v)
            self.assume(x == v[1])
            return v[1]
        # enumerate
        vals = []
        self.solver.push()
        while True:
            t = time.time()
            r = self.solver.check()
            self.stats.solver_time += time.time() - t
            self.stats.solver_checks += 1
            if r != z3.sat:
                break
            v = self.solver.model().eval(x, model_completion=True).as_long()
            vals.append(v)
            self.solver.add(x != v)
            if len(vals) > limit:
                self.solver.pop()
                raise BoundExceeded('concretize: too many values')
        self.solver.pop()
        if not vals:
            raise Infeasible()
        vals.sort()
        for v in vals[1:]:
            self.worklist.append(tuple(self.decisions) + (('val', v),))
        self.decisions.append(('val', vals[0]))
        self.assume(x == vals[0])
        return vals[0]

    # ------------------------------------------------------------ types
    def subst_ty(self, ty, frame):
        if not frame.tyenv:
            return ty
        def rep(m):
            w = m.group(0)
            return frame.tyenv.get(w, w)
        return re.sub(r'\b[A-Za-z_][A-Za-z0-9_]*\b', rep, ty)

    def local_ty(self, frame, idx):
        return self.subst_ty(frame.body.locals[idx], frame)

    def place_ty(self, frame, place):
        ty = self.local_ty(frame, place.local)
        for p in place.proj:
            if p[0] == 'field':
                ty = self.subst_ty(p[2], frame)
            elif p[0] == 'deref':
                t = strip_lifetimes(ty)
                if t.startswith('&mut '):
                    ty = t[5:]
                elif t.startswith('&'):
                    ty = t[1:]
                else:
                    ty = '?'
            elif p[0] == 'downcast':
                pass
            else:
                ty = '?'
        return ty

    def operand_ty(self, frame, op):
        if op.kind in ('copy', 'move'):
            return self.place_ty(frame, op.val)
        if op.kind == 'const':
            v = op.val
            m = re.match(r'^-?[0-9_]+_?([iu](?:8|16|32|64|128|size))$', v)
            if m:
                return m.group(1)
            if v in ('true', 'false'):
                return 'bool'
            if v.startswith('"'):
                return '&str'
            if re.match(r'^-?[0-9.]+(e[+-]?[0-9]+)?f(32|64)$', v, re.I):
                return v[-3:]
            m = re.match(r'^ZeroSized: (.*)$', v)
            if m:
                return m.group(1)
            m = re.match(r'^(.*)::promoted\[(\d+)\]$', v)
            if m:
                b = self.prog.by_name.get('%s::promoted[%s]' % (frame.body.name, m.group(2)))
                if b is not None:
                    return b.ret
            key = v
            while key not in self.prog.consts and '::' in key:
                key = key.split('::', 1)[1]
            if key in self.prog.consts:
                return self.prog.consts[key][0]
            return '?'
        return '?'

    # ------------------------------------------------------------ places
    def resolve_place(self, frame, place):
        """-> (container, key)"""
        cont, key = frame.locals, place.local
        transparent = False
        for p in place.proj:
            if transparent and p[0] == 'field':
                continue
            if p[0] == 'deref':
                r = cont[key]
                if type(r).__name__ in ('SliceV', 'VecV', 'StrV'):
                    continue        # fat pointer to a slice: the slice value stands for its pointee
                if not isinstance(r, Ref):
                    raise Unsupported('deref of non-ref %r' % (r,))
                cont, key = r.cont, r.key
            elif p[0] == 'field':
                v = cont[key]
                if isinstance(v, Agg) and v.kind == 'boxptr':
                    # MaybeUninit/ManuallyDrop/MaybeDangling wrappers are transparent: all fields alias the cell
                    cont, key = v.fields, 0
                    transparent = True
                    continue
                if isinstance(v, Agg):
                    cont, key = v.fields, p[1]
                elif isinstance(v, list):
                    cont, key = v, p[1]
                else:
                    raise Unsupported('field of %r in %s' % (v, frame.body.name))
            elif p[0] == 'downcast':
                v = cont[key]
                # stay on same aggregate; check variant
                continue
            elif p[0] in ('index', 'constindex'):
                v = cont[key]
                while isinstance(v, Ref):
                    v = v.get()
                if p[0] == 'index':
                    i = frame.locals[p[1]]
                    if is_sym(i):
                        i = self.concretize(i)
                else:
                    mo = re.match(r'^(-?\d+) of (\d+)$', p[1].strip())
                    if not mo:
                        raise Unsupported('constindex %r' % (p[1],))
                    i = int(mo.group(1))
                tn = type(v).__name__
                if tn == 'SliceV':
                    if i < 0 or i >= len(v):
                        raise Panic('IndexOOB', 'index %d len %d' % (i, len(v)))
                    cont, key = v.base, v.lo + i
                elif tn in ('VecV', 'StrV'):
                    if i < 0 or i >= len(v.items):
                        raise Panic('IndexOOB', 'index %d len %d' % (i, len(v.items)))
                    cont, key = v.items, i
                elif isinstance(v, list):
                    if i < 0 or i >= len(v):
                        raise Panic('IndexOOB', 'index %d len %d' % (i, len(v)))
                    cont, key = v, i
                else:
                    raise Unsupported('index into %r' % (v,))
            else:
                raise Unsupported('proj %r' % (p,))
        return cont, key

    def read_place(self, frame, place):
        cont, key = self.resolve_place(frame, place)
        try:
            v = cont[key]
        except (KeyError, IndexError):
            # uninitialised local: zero-sized closure etc.
            ty = self.place_ty(frame, place)
            if ty.startswith('{closure@'):
                return Agg('closure', ty, [])
            raise Unsupported('read of uninitialised %r in %s' % (place, frame.body.name))
        return v

    def write_place(self, frame, place, v):
        cont, key = self.resolve_place(frame, place)
        if isinstance(cont, list) and key >= len(cont):
            cont.extend([UNINIT] * (key + 1 - len(cont)))
        cont[key] = v

    # ------------------------------------------------------------ operands / rvalues
    def const_val(self, frame, s):
        m = re.match(r'^(-?[0-9_]+)_?([iu](?:8|16|32|64|128|size))$', s)
        if m:
            return int(m.group(1).replace('_', ''))
        if s == 'true':
            return True
        if s == 'false':
            return False
        if s == '()':
            return Agg('tuple', '()', [])
        if s in ('RangeFull', 'std::ops::RangeFull', 'core::ops::RangeFull'):
            return Agg('struct', 'RangeFull', [])
        mo = re.match(r'^(?:[A-Za-z_:]*::)?(Option|Ordering|Sign|RoundingMode|FpCategory)(?:::<.*>)?::([A-Z][A-Za-z]*)$', s)
        if mo and mo.group(1) in ENUM_VARIANTS and (mo.group(2) in ENUM_VARIANTS[mo.group(1)]):
            return mk_enum(mo.group(1), mo.group(2))
        m = re.match(r'^([iu](?:8|16|32|64|128|size))::(MIN|MAX)$', s) or re.match(r'^core::num::<impl ([iu](?:8|16|32|64|128|size))>::(MIN|MAX)$', s)
        if m:
            lo, hi = INT_RANGE[m.group(1)]
            return lo if m.group(2) == 'MIN' else hi
        if s.startswith('"') and s.endswith('"'):
            return s[1:-1]
        if s.startswith('b"'):
            from .summaries import parse_byte_literal
            return parse_byte_literal(s)
        mm = re.match(r"^'(.)'$", s)
        if mm:
            return ord(mm.group(1))
        if s == 'std::f64::consts::LOG2_10':
            return 3.32192809488736234787031942948939018
        if re.match(r'^-?[0-9.]+(e[+-]?[0-9]+)?f(32|64)$', s, re.I):
            return float(s[:-3])
        mi = re.match(r'^(?:(?:std|core)::)?(?:f32|f64)::(?:<impl f(?:32|64)>::)?(INFINITY|NEG_INFINITY|NAN)$', s)
        if mi:
            return {'INFINITY': float('inf'), 'NEG_INFINITY': float('-inf'), 'NAN': float('nan')}[mi.group(1)]
        mf = re.match(r'^(?:std|core)::(f32|f64)::consts::([A-Z0-9_]+)$', s)
        if mf:
            import math
            return {'LOG2_10': 3.32192809488736234787031942948939018, 'PI': math.pi, 'E': math.e, 'LN_10': math.log(10), 'LOG10_2': math.log10(2)}[mf.group(2)]
        m = re.match(r'^ZeroSized: (.*)$', s)
        if m:
            t = m.group(1)
            if t.startswith('{closure@'):
                return Agg('closure', strip_lifetimes(t), [])
            return FnItem(t)
        m = re.match(r'^(.*)::promoted\[(\d+)\]$', s)
        if m:
            b = self.prog.by_name.get('%s::promoted[%s]' % (frame.body.name, m.group(2)))
            if b is None:
                raise Unsupported('promoted? ' + s)
            return self.call_body(b, [], {})
        key = s
        while key not in self.prog.consts and '::' in key:
            key = key.split('::', 1)[1]
        if key in self.prog.consts:
            return self.const_val(frame, self.prog.consts[key][1].replace('const ', '', 1))
        key = s
        while key not in self.prog.by_name and '::' in key:
            key = key.split('::', 1)[1]
        if key in self.prog.by_name and self.prog.by_name[key].kind == 'const':
            return self.call_body(self.prog.by_name[key], [], {})
        if re.fullmatch(r'(?:[a-z_][A-Za-z0-9_]*::)*[A-Z][A-Za-z0-9_]*', s):
            return Agg('struct', s.split('::')[-1], [])          # a unit struct used as a value (e.g. `BigDecimalVisitor`)
        raise Unsupported('const? ' + s)

    def eval_operand(self, frame, op):
        if op.kind == 'copy':
            return copy_val(self.read_place(frame, op.val))
        if op.kind == 'move':
            return self.read_place(frame, op.val)
        if op.kind == 'const':
            return self.const_val(frame, op.val)
        if op.kind == 'fn':
            return FnItem(op.val)
        raise Unsupported('operand')

    def int_ty_of(self, ty):
        ty = ty.strip()
        return ty if ty in INT_RANGE else None

    def eval_rvalue(self, frame, rv, dest_ty):
        k = rv.kind
        if k == 'use':
            return self.eval_operand(frame, rv.args[0])
        if k == 'ref':
            pl = rv.args[1]
            if not pl.proj and pl.local not in frame.locals:
                ty = strip_lifetimes(self.local_ty(frame, pl.local))
                if ty.startswith('{closure@'):
                    frame.locals[pl.local] = Agg('closure', ty, [])
            cont, key = self.resolve_place(frame, pl)
            return Ref(cont, key)
        if k == 'binop':
            op, a, b = rv.args
            x, y = self.eval_operand(frame, a), self.eval_operand(frame, b)
            return self.binop(op, x, y, dest_ty, self.operand_ty(frame, a))
        if k == 'unop':
            op, a = rv.args
            x = self.eval_operand(frame, a)
            if op == 'Neg':
                return -x
            if op == 'Not':
                if isinstance(x, bool):
                    return not x
                if is_sym(x) and z3.is_bool(x):
                    return z3.Not(x)
                # bitwise complement of a machine integer: two's complement identity !x = -x - 1 (signed), MAX - x (unsigned)
                ity = self.int_ty_of(self.operand_ty(frame, a)) or self.int_ty_of(dest_ty)
                if ity:
                    lo, hi = INT_RANGE[ity]
                    return (hi - x) if lo == 0 else (-x - 1)
            if op == 'PtrMetadata':
                from .summaries import as_slice, str_items, deref as _deref
                v = _deref(x)
                try:
                    return len(as_slice(v))
                except Unsupported:
                    return len(str_items(v))
            raise Unsupported('unop ' + op)
        if k == 'discriminant':
            v = self.read_place(frame, rv.args[0])
            if isinstance(v, Agg) and v.kind == 'enum':
                return variant_index(v.name, v.variant)
            raise Unsupported('discriminant of %r' % (v,))
        if k == 'tuple':
            return Agg('tuple', '()', [self.eval_operand(frame, o) for o in rv.args[0]])
        if k == 'aggregate':
            head, fields = rv.args
            name = parse_ty(head)[1] if not head.startswith('{') else strip_lifetimes(head)
            kind = 'closure' if head.startswith('{closure') else 'struct'
            return Agg(kind, name, [self.eval_operand(frame, o) for _, o in fields])
        if k == 'variant':
            head, ops = rv.args
            segs = last_seg(strip_lifetimes(head))
            variant = segs[-1]
            enum = parse_ty('::'.join(segs[:-1]))[1]
            if enum in ENUM_VARIANTS:
                return mk_enum(enum, variant, [self.eval_operand(frame, o) for o in ops])
            # tuple struct
            return Agg('struct', parse_ty(head)[1], [self.eval_operand(frame, o) for o in ops])
        if k == 'path':
            segs = last_seg(strip_lifetimes(rv.args[0]))
            variant = segs[-1]
            enum = parse_ty('::'.join(segs[:-1]))[1]
            if enum in ENUM_VARIANTS:
                return mk_enum(enum, variant, [])
            if enum and enum[:1].isupper() and variant[:1].isupper():
                return Agg('enum', enum, [], variant)      # unit variant of an enum the engine never switches on
            raise Unsupported('path rvalue ' + rv.args[0])
        if k == 'cast':
            kind, op, ty = rv.args
            x = self.eval_operand(frame, op)
            if kind == 'IntToInt':
                return self.int_cast(x, self.operand_ty(frame, op), ty.strip())
            if kind.startswith('PointerCoercion'):
                return x
            if kind == 'IntToFloat':
                if is_sym(x):
                    # few feasible values (a bit length, a digit count): fork over them; otherwise `n as f64` is a
                    # contract token (IEEE round-to-nearest of a symbolic integer)
                    few = self.few_values(x, 130)
                    if few is None:
                        if ty.strip() != 'f64':
                            raise Unsupported('symbolic integer as f32')
                        from .summaries import IntToF64
                        return IntToF64(x)
                    x = self.concretize(x, limit=130)
                if ty.strip() == 'f32':
                    import struct
                    return struct.unpack('<f', struct.pack('<f', float(x)))[0]
                return float(x)
            if kind == 'FloatToFloat':
                if ty.strip() == 'f32':
                    import struct
                    return struct.unpack('<f', struct.pack('<f', x))[0]
                return x
            if kind == 'FloatToInt' and type(x).__name__ == 'FloatV':
                from .summaries import float_to_int
                return float_to_int(self, x, ty.strip())
            if kind == 'FloatToInt':
                lo, hi = INT_RANGE[ty.strip()]
                if x != x:
                    return 0
                if x in (float('inf'), float('-inf')):
                    return hi if x > 0 else lo
                return max(lo, min(hi, int(x)))
            if kind == 'Transmute' and isinstance(x, Agg) and x.kind == 'boxptr':
                return Ref([x], 0)
            raise Unsupported('cast ' + kind)
        if k == 'array':
            return [self.eval_operand(frame, o) for o in rv.args[0]]
        if k == 'repeat':
            v = self.eval_operand(frame, rv.args[0])
            cnt = rv.args[1].strip()
            mo = re.match(r'^(?:const )?(\d+)(?:_usize)?$', cnt)
            if not mo:
                cv = self.const_val(frame, cnt.replace('const ', '', 1))
                n = cv
            else:
                n = int(mo.group(1))
            if n > 1000000:
                raise BoundExceeded('array repeat %d' % n)
            return [copy_val(v) for _ in range(n)]
        raise Unsupported('rvalue ' + k)

    def int_cast(self, x, src, dst):
        if isinstance(x, bool):
            return int(x)
        if z3.is_bool(x) if is_sym(x) else False:
            return z3.If(x, 1, 0)
        slo, shi = INT_RANGE.get(src, (None, None))
        dlo, dhi = INT_RANGE[dst]
        if not is_sym(x):
            n = dhi - dlo + 1
            return (x - dlo) % n + dlo
        if slo is not None and slo >= dlo and shi <= dhi:
            return x
        n = dhi - dlo + 1
        if slo is not None and shi - slo + 1 == n:
            # same width sign change
            if dlo == 0:
                return z3.If(x < 0, x + n, x)
            return z3.If(x > dhi, x - n, x)
        if dlo == 0 and slo is not None and slo >= 0:
            return self.pow2_split(x, n.bit_length() - 1)[1]
        return (x - dlo) % n + dlo

    def pow2_split(self, x, k):
        """(q, r) with x == q*2^k + r, 0 <= r < 2^k, for a non-negative term x; ONE pair of fresh variables per (term, k) on a
        path, so that `x as u32`, `x >> 32` and `x & 0xffffffff` of the same x share their quotient and remainder"""
        key = (x.get_id(), k)
        hit = self._splits.get(key)
        if hit is not None and hit[0].eq(x):
            return hit[1], hit[2]
        q, r = self.fresh('pq'), self.fresh('pr')
        self.assume(z3.And(x == q * 2 ** k + r, r >= 0, r < 2 ** k, q >= 0))
        self.set_bounds(r, 0, 2 ** k - 1)
        self._splits[key] = (x, q, r)
        return q, r

    def binop(self, op, x, y, dest_ty, opnd_ty):
        if op in ('Eq', 'Ne', 'Lt', 'Le', 'Gt', 'Ge') and (type(x).__name__ in ('FloatV', 'IntToF64') or type(y).__name__ in ('FloatV', 'IntToF64')) \
                and all(type(v).__name__ in ('FloatV', 'IntToF64', 'float') for v in (x, y)):
            from .summaries import float_cmp, float_eq, FloatV
            if op in ('Eq', 'Ne') and isinstance(x, (FloatV, float)) and isinstance(y, (FloatV, float)) and not (isinstance(x, FloatV) and isinstance(y, FloatV)):
                pass        # handled below by the structural float_eq (no fork needed)
            else:
                return float_cmp(self, op, x, y)
        if type(x).__name__ in FLOAT_TOKEN_NAMES or type(y).__name__ in FLOAT_TOKEN_NAMES:
            from .summaries import F64Prod, F64Quot
            if op == 'Mul':
                return F64Prod(x, y)
            if op == 'Div':
                return F64Quot(x, y)
            raise Unsupported('float binop %s on a float contract token' % op)
        if type(x).__name__ == 'FloatV' or type(y).__name__ == 'FloatV':
            from .summaries import float_eq
            fty = (x if type(x).__name__ == 'FloatV' else y).ty
            if op == 'Eq':
                return float_eq(self, fty, x, y)
            if op == 'Ne':
                r = float_eq(self, fty, x, y)
                return (not r) if isinstance(r, bool) else z3.Not(r)
            raise Unsupported('float binop %s on a symbolic float' % op)
        if op in ('Eq', 'Ne', 'Lt', 'Le', 'Gt', 'Ge'):
            if isinstance(x, bool) or isinstance(y, bool) or (is_sym(x) and z3.is_bool(x)):
                if op == 'Eq':
                    return x == y
                if op == 'Ne':
                    return x != y if not is_sym(x) and not is_sym(y) else z3.Xor(x, y)
            r = {'Eq': lambda: x == y, 'Ne': lambda: x != y, 'Lt': lambda: x < y, 'Le': lambda: x <= y,
                 'Gt': lambda: x > y, 'Ge': lambda: x >= y}[op]()
            return r
        if op in ('AddWithOverflow', 'SubWithOverflow', 'MulWithOverflow'):
            m = re.match(r'^\((.*), bool\)$', dest_ty.strip())
            ity = m.group(1).strip()
            lo, hi = INT_RANGE[ity]
            v = x + y if op[0] == 'A' else (x - y if op[0] == 'S' else x * y)
            if is_sym(v):
                ovf = z3.Or(v < lo, v > hi)
            else:
                ovf = v < lo or v > hi
            return Agg('tuple', '()', [v, ovf])
        if isinstance(x, float) or isinstance(y, float):
            return {'Add': lambda: x + y, 'Sub': lambda: x - y, 'Mul': lambda: x * y, 'Div': lambda: x / y}[op]()
        if op in ('Add', 'Sub', 'Mul'):
            v = x + y if op == 'Add' else (x - y if op == 'Sub' else x * y)
            ity = self.int_ty_of(dest_ty)
            if ity and not is_sym(v):
                lo, hi = INT_RANGE[ity]
                v = (v - lo) % (hi - lo + 1) + lo
            return v  # symbolic: assume compiler-proved no overflow (unchecked arithmetic only appears where rustc elided the check)
        if op in ('BitAnd', 'BitOr', 'BitXor') and (isinstance(x, bool) or isinstance(y, bool) or (is_sym(x) and z3.is_bool(x)) or (is_sym(y) and z3.is_bool(y))):
            # boolean operands (e.g. the `x == -1 & y == MIN` guard rustc emits before a signed division)
            bx = x if (isinstance(x, bool) or is_sym(x)) else bool(x)
            by = y if (isinstance(y, bool) or is_sym(y)) else bool(y)
            if isinstance(bx, bool) and isinstance(by, bool):
                return {'BitAnd': bx and by, 'BitOr': bx or by, 'BitXor': bx != by}[op]
            if op == 'BitAnd':
                if bx is False or by is False:
                    return False
                return by if bx is True else (bx if by is True else z3.And(bx, by))
            if op == 'BitOr':
                if bx is True or by is True:
                    return True
                return by if bx is False else (bx if by is False else z3.Or(bx, by))
            zx = z3.BoolVal(bx) if isinstance(bx, bool) else bx
            zy = z3.BoolVal(by) if isinstance(by, bool) else by
            return z3.Xor(zx, zy)
        if op in ('BitAnd', 'BitOr', 'BitXor') and not is_sym(x) and not is_sym(y):
            return {'BitAnd': x & y, 'BitOr': x | y, 'BitXor': x ^ y}[op]
        if op == 'BitAnd' and (is_sym(x) != is_sym(y)):
            v, mask = (x, y) if is_sym(x) else (y, x)
            if mask < 0:
                raise Unsupported('BitAnd with negative mask')
            if mask == 0:
                return 0
            a = (mask & -mask).bit_length() - 1          # lowest set bit
            b = mask.bit_length() - a                     # number of bits up to the highest set bit
            if mask != ((1 << b) - 1) << a:
                raise Unsupported('BitAnd with non-contiguous mask %x' % mask)
            if a == 0:
                return self.pow2_split(v, b)[1]
            # v = hi*2^(a+b) + mid*2^a + lo ;  result = mid*2^a
            hi, mid, lo = self.fresh('bh'), self.fresh('bm'), self.fresh('bl')
            self.assume(z3.And(v == hi * 2 ** (a + b) + mid * 2 ** a + lo, lo >= 0, lo < 2 ** a, mid >= 0, mid < 2 ** b, hi >= 0))
            return mid * 2 ** a if a else mid
        if op in ('Shr', 'ShrUnchecked', 'Shl', 'ShlUnchecked') and is_sym(y):
            y = self.concretize(y, limit=130)       # shift amounts are small: fork over the feasible ones
        if op in ('Shr', 'ShrUnchecked') and not is_sym(y):
            if not is_sym(x):
                return x >> y
            return self.pow2_split(x, y)[0]
        if op in ('Shl', 'ShlUnchecked') and not is_sym(y):
            ity = self.int_ty_of(dest_ty)
            width = {'u8': 8, 'u16': 16, 'u32': 32, 'u64': 64, 'u128': 128, 'usize': 64}.get(ity)
            if not is_sym(x):
                v = x << y
                if ity:
                    lo, hi = INT_RANGE[ity]
                    v = (v - lo) % (hi - lo + 1) + lo
                return v
            if width is None:
                raise Unsupported('Shl of symbolic signed value')
            if y >= width:
                return 0
            # (x * 2^y) mod 2^width = r * 2^y  where x = q*2^(width-y) + r
            q, r = self.fresh('slq'), self.fresh('slr')
            self.assume(z3.And(x == q * 2 ** (width - y) + r, r >= 0, r < 2 ** (width - y), q >= 0))
            return r * 2 ** y
        if op in ('Div', 'Rem'):
            return self.tdivrem(x, y)[0 if op == 'Div' else 1]
        raise Unsupported('binop ' + op)

    def tdivrem(self, x, y):
        """truncated division, y != 0 must hold (caller asserts)"""
        if not is_sym(x) and not is_sym(y):
            q = abs(x) // abs(y)
            if (x < 0) != (y < 0):
                q = -q
            return q, x - q * y
        if not is_sym(y):
            q, r = self.fresh('q'), self.fresh('r')
            self.assume(x == q * y + r)
            ay = abs(y)
            self.assume(z3.And(z3.If(x >= 0, z3.And(r >= 0, r < ay), z3.And(r <= 0, r > -ay))))
            return q, r
        # symbolic divisor: uninterpreted truncated quotient/remainder + the linear part of their contract
        q, r = TDIV(x, y), TREM(x, y)
        ay = z3.If(y >= 0, y, -y)
        self.assume(z3.And(z3.Implies(x >= 0, z3.And(r >= 0, r < ay)), z3.Implies(x <= 0, z3.And(r <= 0, -r < ay))))
        return q, r

    # ------------------------------------------------------------ execution
    def call_body(self, body, args, tyenv, start_bb='bb0', init_locals=None):
        self.stats.funcs[body.name] += 1
        frame = Frame(body, tyenv)
        for (idx, _), a in zip(body.params, args):
            frame.locals[idx] = a
        if init_locals:
            frame.locals.update(init_locals)
        self.depth += 1
        self.frames.append(frame)
        if self.depth > 60:
            raise BoundExceeded('call depth')
        visits = collections.Counter()
        bb = start_bb
        cut = getattr(self, 'cut', None)
        first = True
        try:
            while True:
                blk = body.blocks[bb]
                visits[bb] += 1
                if cut and cut[0] == body.name and cut[1] == bb and not (first and start_bb == bb):
                    raise CutReached(frame)
                first = False
                if visits[bb] > self.loop_bound:
                    raise BoundExceeded('loop bound in %s %s' % (body.name, bb))
                for st in blk.stmts:
                    self.stats.steps += 1
                    if st.place is None:
                        continue
                    dest_ty = self.place_ty(frame, st.place)
                    v = self.eval_rvalue(frame, st.rv, dest_ty)
                    self.write_place(frame, st.place, v)
                t = blk.term
                self.stats.steps += 1
                if t.kind == 'goto':
                    bb = t.data['target']
                elif t.kind == 'return':
                    return frame.locals.get(0, Agg('tuple', '()', []))
                elif t.kind == 'unreachable':
                    raise Unsupported('reached unreachable in ' + body.name)
                elif t.kind == 'drop':
                    bb = t.data['targets']['return']
                elif t.kind == 'switchInt':
                    bb = self.do_switch(frame, t)
                elif t.kind == 'assert':
                    c = self.eval_operand(frame, t.data['cond'])
                    exp = t.data['expected']
                    ok = self.branch_bool(c if exp else (not c if isinstance(c, bool) else z3.Not(c)))
                    if not ok:
                        kind = 'ArithOverflow' if 'overflow' in t.data['msg'] else 'Assert'
                        raise Panic(kind, t.data['msg'] + ' @' + body.name)
                    bb = t.data['targets']['success']
                elif t.kind == 'call':
                    bb = self.do_call(frame, t)
                else:
                    raise Unsupported('terminator ' + t.kind)
        finally:
            self.depth -= 1
            self.frames.pop()

    def do_switch(self, frame, t):
        op = t.data['op']
        v = self.eval_operand(frame, op)
        ty = self.operand_ty(frame, op)
        targets = t.data['targets']
        cases = [(k, bb) for k, bb in targets if k != 'otherwise']
        other = [bb for k, bb in targets if k == 'otherwise']
        # normalise case values to the operand's type
        def norm(k):
            k = int(k)
            if ty in INT_RANGE:
                lo, hi = INT_RANGE[ty]
                if k > hi:
                    k -= (hi - lo + 1)
            return k
        if isinstance(v, bool) or (is_sym(v) and z3.is_bool(v)):
            # cases are 0 / otherwise typically
            b = self.branch_bool(v)
            iv = 1 if b else 0
            for k, bb in cases:
                if norm(k) == iv:
                    return bb
            return other[0]
        if not is_sym(v):
            for k, bb in cases:
                if norm(k) == v:
                    return bb
            return other[0]
        conds = [v == norm(k) for k, _ in cases]
        if other:
            conds.append(z3.And([v != norm(k) for k, _ in cases]))
        i = self.choose(conds)
        return cases[i][1] if i < len(cases) else other[0]

    def do_call(self, frame, t):
        func = self.subst_ty(t.data['func'], frame)
        args = [self.eval_operand(frame, a) for a in t.data['args']]
        arg_tys = [self.operand_ty(frame, a) for a in t.data['args']]
        dest = t.data['dest']
        dest_ty = self.place_ty(frame, dest) if dest is not None else '()'
        if func in self.trace_funcs:
            self.trace.append((func, frame.body.name, list(args)))
        r = self.call(func, args, arg_tys, dest_ty)
        if dest is not None:
            self.write_place(frame, dest, r)
        ret = t.data['targets'].get('return')
        if ret is None:
            raise Unsupported('diverging call returned: ' + func)
        return ret

    def call(self, func, args, arg_tys, dest_ty):
        from .summaries import find_summary
        f = strip_lifetimes(func)
        # 0. harness-installed contracts (assume-guarantee substitution of verified internal functions)
        for rx, fn in self.overrides:
            mo = rx.match(f)
            if mo:
                self.stats.summaries['contract:' + fn.__name__] += 1
                return fn(self, mo, args, arg_tys, dest_ty)
        # 1. crate-internal definition?
        cands = []
        try:
            cands = self.prog.index.resolve(f, arg_tys)
        except Exception as e:
            cands = []
        if cands:
            # prefer most specific (fewest bound variables)
            cands.sort(key=generic_vars)
            if len(cands) > 1 and generic_vars(cands[0]) == generic_vars(cands[1]):
                raise Unsupported('ambiguous call %s %r -> %r' % (f, arg_tys, [c[0].name for c in cands]))
            d, env = cands[0]
            tyenv = {k: ty_to_str(v) for k, v in env.items()}
            # explicit turbofish on generic fns:  name::<A, B>  binds the declared type parameters in order
            tf = turbofish_args(f)
            if tf:
                gens = self.prog.generics_of(d)
                if gens and len(gens) == len(tf):
                    for g, a in zip(gens, tf):
                        tyenv.setdefault(g, a)
            return self.call_body(d.body, args, tyenv)
        # 1b. blanket  Into -> From
        if f.startswith('<') and f.endswith('>::into'):
            inner = f[1:match_close(f, 0)]
            k = find_top(inner, ' as Into<')
            if k >= 0:
                X = inner[:k].strip()
                Y = inner[k + len(' as Into<'):-1].strip()
                if parse_ty(X) == parse_ty(Y):
                    return args[0]
                c2 = self.prog.index.resolve('<%s as From<%s>>::from' % (Y, X), arg_tys)
                if c2:
                    c2.sort(key=generic_vars)
                    d, env = c2[0]
                    return self.call_body(d.body, args, {k: ty_to_str(v) for k, v in env.items()})
        # 2. summary
        h = find_summary(f)
        if h is None:
            raise Unsupported('no summary for %s %r' % (f, arg_tys))
        self.stats.summaries[h[0]] += 1
        return h[1](self, h[2], args, arg_tys, dest_ty)


def turbofish_args(f):
    """type arguments of a trailing ::<...> on a call path (lifetimes already stripped)"""
    if not f.endswith('>'):
        return None
    depth = 0
    for i in range(len(f) - 1, -1, -1):
        c = f[i]
        if c == '>' and not f.startswith('->', i - 1):
            depth += 1
        elif c == '<':
            depth -= 1
            if depth == 0:
                break
    if i < 2 or f[i - 2:i] != '::':
        return None
    return [a for a in split_top(f[i + 1:-1]) if a and not a.startswith("'")]


def generic_vars(cand):
    """number of *type parameters* bound by a candidate impl (macro metavariables are not generic)"""
    return len([k for k in cand[1] if not k.startswith('$')])


def ty_to_str(t):
    k = t[0]
    if k == 'nom':
        return t[1] + ('<%s>' % ', '.join(ty_to_str(a) for a in t[2]) if t[2] else '')
    if k == 'ref':
        return '&' + ('mut ' if t[1] else '') + ty_to_str(t[2])
    if k == 'tuple':
        return '(%s)' % ', '.join(ty_to_str(a) for a in t[1])
    if k == 'slice':
        return '[%s]' % ty_to_str(t[1])
    if k == 'var':
        return t[1]
    if k == 'raw':
        return t[1]
    return '?'


def explore(prog, run_path, max_paths=100000, **mk):
    """run_path(machine) -> outcome record; explores all decision prefixes"""
    stats = Stats()
    worklist = [()]
    results = []
    while worklist:
        prefix = worklist.pop()
        m = Machine(prog, prefix, worklist, stats, **mk)
        stats.paths += 1
        try:
            out = run_path(m)
            results.append(('ok', out, m))
            stats.outcomes['ok'] += 1
        except Infeasible:
            stats.outcomes['infeasible'] += 1
        except CutReached as c:
            results.append(('cut', c, m))
            stats.outcomes['cut'] += 1
        except Panic as p:
            results.append(('panic', p, m))
            stats.outcomes['panic'] += 1
        except BoundExceeded as e:
            results.append(('bound', e, m))
            stats.outcomes['bound'] += 1
        except Unsupported as e:
            results.append(('unsupported', e, m))
            stats.outcomes['unsupported'] += 1
        if os.environ.get('SPIKE_DEBUG'):
            print('  path %d %s decisions=%d checks=%d solver=%.1fs t=%.1fs funcs=%s' % (stats.paths, results[-1][0] if results else '-', len(m.decisions), stats.solver_checks, stats.solver_time, time.time() - _t0, ''), flush=True)
        if stats.paths >= max_paths:
            break
    return results, stats
