"""Spike: environment summaries (subset needed for the Add/Sub/Mul family)."""
import re
import z3
from .engine import (Agg, Ref, FnItem, Panic, Unsupported, Infeasible, BoundExceeded, mk_enum, ordering, is_sym, INT_RANGE,
                    copy_val, variant_index)
from .resolve import strip_lifetimes

INT = r'(?:[iu](?:8|16|32|64|128|size))'
BIG = r'(?:num_bigint::)?Big(?:Int|Uint)'
SUMMARIES = []


def summary(pattern):
    def deco(fn):
        SUMMARIES.append((fn.__name__, re.compile('^' + pattern + '$'), fn))
        return fn
    return deco


_cache = {}


_NORMALISE = [('std::option::Option', 'Option'), ('core::option::Option', 'Option'), ('std::result::Result', 'Result'), ('core::result::Result', 'Result'),
              ('std::borrow::Cow', 'Cow'), ('std::fmt::Formatter', 'Formatter'), ('core::fmt::Formatter', 'Formatter'), ('std::fmt::Arguments', 'Arguments'),
              ('std::num::NonZero', 'NonZero'), ('core::num::NonZero', 'NonZero')]


def find_summary(func):
    if func in _cache:
        return _cache[func]
    key = func
    for a, b in _NORMALISE:
        if a in func:
            func = func.replace(a, b)
    for cand in (func, _strip_trait_paths(func)):
        for name, rx, fn in SUMMARIES:
            m = rx.match(cand)
            if m:
                _cache[key] = (name, fn, m)
                return _cache[key]
    _cache[key] = None
    return None


_TRAIT_PREFIX = re.compile(r'\b(?:std|core|alloc)::(?:ops|str|convert|clone|cmp|iter|default|string|borrow|hash)::(?:traits::|function::|index::|deref::|range::)?'
                           r'(?=(?:Index|IndexMut|FromStr|Deref|DerefMut|From|Into|TryFrom|TryInto|Clone|PartialEq|PartialOrd|Ord|Eq|Iterator|IntoIterator|DoubleEndedIterator|'
                           r'ExactSizeIterator|Default|Try|FromResidual|ToString|ToOwned|Hash|Hasher|Extend|Fn|FnMut|FnOnce|AsRef|AsMut|Borrow|Range|RangeFrom|RangeTo|RangeFull|RangeInclusive)\b)')


def _strip_trait_paths(f):
    return _TRAIT_PREFIX.sub('', f)


def deref(v):
    while isinstance(v, Ref):
        v = v.get()
    return v


def some(x):
    return mk_enum('Option', 'Some', [x])


NONE = lambda: mk_enum('Option', 'None', [])

BITS = z3.Function('bits', z3.IntSort(), z3.IntSort())


def zabs(x):
    if is_sym(x):
        return z3.If(x >= 0, x, -x)
    return abs(x)


# ------------------------------------------------------------------ BigInt / BigUint

@summary(r'<%s as num_traits::Zero>::is_zero' % BIG)
def big_is_zero(m, mt, args, tys, dty):
    return deref(args[0]) == 0


@summary(r'<%s as num_traits::Zero>::zero' % BIG)
def big_zero(m, mt, args, tys, dty):
    return 0


@summary(r'<%s as num_traits::One>::one' % BIG)
def big_one(m, mt, args, tys, dty):
    return 1


@summary(r'<%s as num_traits::One>::is_one' % BIG)
def big_is_one(m, mt, args, tys, dty):
    return deref(args[0]) == 1


@summary(r'<%s as num_traits::Zero>::set_zero' % BIG)
def big_set_zero(m, mt, args, tys, dty):
    args[0].set(0)
    return Agg('tuple', '()', [])


@summary(r'<(?:%s|%s|num_bigint::Sign|u8|char|f32|f64|bool) as Clone>::clone_from' % (BIG, INT))
def generic_clone_from(m, mt, args, tys, dty):
    args[0].set(copy_val(deref(args[1])))
    return Agg('tuple', '()', [])


@summary(r'<%s as Clone>::clone' % BIG)
def big_clone(m, mt, args, tys, dty):
    return deref(args[0])


@summary(r'<%s as (?:From<%s>)>::from' % (BIG, INT))
def big_from_prim(m, mt, args, tys, dty):
    return args[0]


@summary(r'<(?:%s|%s) as Into<%s>>::into' % (INT, BIG, BIG))
def big_into(m, mt, args, tys, dty):
    return args[0]


@summary(r'(?:num_bigint::)?BigInt::from_biguint')
def big_from_biguint(m, mt, args, tys, dty):
    sign, mag = args
    v = sign.variant
    if v == 'Minus':
        return -mag
    if v == 'NoSign':
        return 0
    return mag


@summary(r'(?:num_bigint::)?BigInt::magnitude')
def big_magnitude(m, mt, args, tys, dty):
    x = deref(args[0])
    return Ref([zabs(x)], 0)


@summary(r'(?:num_bigint::)?BigInt::sign')
def big_sign(m, mt, args, tys, dty):
    x = deref(args[0])
    if not is_sym(x):
        return mk_enum('Sign', 'Minus' if x < 0 else ('NoSign' if x == 0 else 'Plus'))
    k = m.choose([x < 0, x == 0, x > 0])
    return mk_enum('Sign', ['Minus', 'NoSign', 'Plus'][k])


@summary(r'(?:num_bigint::)?Big(?:Int|Uint)::bits')
def big_bits(m, mt, args, tys, dty):
    x = zabs(deref(args[0]))
    if not is_sym(x):
        return x.bit_length()
    b = BITS(x)
    m.assume(b >= 0)
    return b


def _arith(opname, x, y):
    if opname in ('add', 'add_assign'):
        return x + y
    if opname in ('sub', 'sub_assign'):
        return x - y
    if opname in ('mul', 'mul_assign'):
        return x * y
    raise Unsupported(opname)


def root_power(m, r, k):
    """r^k for an integer root r introduced by the root contract (props/contracts.py): a fresh integer tied to the contract's
    `exact` flag by the linear part of the definition of floor(N^(1/k)) - the power itself is never encoded"""
    facts = getattr(m, 'root_vars', {})
    f = facts.get(r.get_id()) if is_sym(r) else None
    if f is None or f[3] != k:
        return None
    memo = getattr(m, '_root_powers', None)
    if memo is None:
        memo = m._root_powers = {}
    key = (r.get_id(), k)
    if key not in memo:
        N, rr, exact, _ = f
        pw = m.fresh('rootpow')
        cs = [pw >= 0, pw <= N, exact == (pw == N)]
        if k == 2:
            cs.append(N <= pw + 2 * rr)          # N < (r+1)^2
        m.assume(z3.And(cs))
        memo[key] = pw
    return memo[key]


@summary(r'<&?%s as std::ops::(Add|Sub|Mul)(?:<&?(?:%s|%s)>)?>::(add|sub|mul)' % (BIG, BIG, INT))
def big_binop(m, mt, args, tys, dty):
    x, y = deref(args[0]), deref(args[1])
    if mt.group(2) in ('mul', 'mul_assign') and is_sym(x) and is_sym(y) and x.get_id() == y.get_id():
        p = root_power(m, x, 2)
        if p is not None:
            return p
    return _arith(mt.group(2), x, y)


@summary(r'<&?%s as std::ops::(Add|Sub|Mul)<&?%s>>::(add|sub|mul)' % (INT, BIG))
def prim_big_binop(m, mt, args, tys, dty):
    return _arith(mt.group(2), deref(args[0]), deref(args[1]))


@summary(r'<%s as std::ops::(AddAssign|SubAssign|MulAssign)(?:<&?(?:%s|%s)>)?>::(add_assign|sub_assign|mul_assign)' % (BIG, BIG, INT))
def big_assignop(m, mt, args, tys, dty):
    r = args[0]
    r.set(_arith(mt.group(2), r.get(), deref(args[1])))
    return Agg('tuple', '()', [])


@summary(r'<%s as std::ops::Neg>::neg' % BIG)
def big_neg(m, mt, args, tys, dty):
    return -args[0]


@summary(r'<&%s as std::ops::Neg>::neg' % BIG)
def big_neg_ref(m, mt, args, tys, dty):
    return -deref(args[0])


@summary(r'<%s as num_traits::Signed>::abs' % BIG)
def big_abs(m, mt, args, tys, dty):
    return zabs(deref(args[0]))


@summary(r'<%s as std::ops::(DivAssign|RemAssign)(?:<&?(?:%s|%s)>)?>::(div_assign|rem_assign)' % (BIG, BIG, INT))
def big_divassign(m, mt, args, tys, dty):
    r = args[0]
    d = deref(args[1])
    if m.branch_bool(d == 0):
        raise Panic('DivByZero', 'BigInt division by zero')
    q, rem = m.tdivrem(r.get(), d)
    r.set(q if mt.group(1) == 'DivAssign' else rem)
    return Agg('tuple', '()', [])


@summary(r'<&?%s as std::ops::(Div|Rem)(?:<&?(?:%s|%s)>)?>::(div|rem)' % (BIG, BIG, INT))
def big_div(m, mt, args, tys, dty):
    x, d = deref(args[0]), deref(args[1])
    if m.branch_bool(d == 0):
        raise Panic('DivByZero', 'BigInt division by zero')
    q, rem = m.tdivrem(x, d)
    return q if mt.group(1) == 'Div' else rem


@summary(r'<%s as Integer>::is_(even|odd)' % BIG)
def big_parity(m, mt, args, tys, dty):
    x = deref(args[0])
    r = x % 2 == 0
    if mt.group(1) == 'odd':
        r = (not r) if isinstance(r, bool) else z3.Not(r)
    return r


@summary(r'<&?%s as Partial(?:Eq|Ord)(?:<.*>)?>::(eq|ne|lt|le|gt|ge)' % BIG)
def big_cmp(m, mt, args, tys, dty):
    x, y = deref(args[0]), deref(args[1])
    op = mt.group(1)
    return {'eq': x == y, 'ne': x != y, 'lt': x < y, 'le': x <= y, 'gt': x > y, 'ge': x >= y}[op]


# ------------------------------------------------------------------ primitive ints

@summary(r'<(%s) as Ord>::cmp' % INT)
def int_cmp(m, mt, args, tys, dty):
    x, y = deref(args[0]), deref(args[1])
    if not is_sym(x) and not is_sym(y):
        return ordering((x > y) - (x < y))
    k = m.choose([x < y, x == y, x > y])
    return ordering(k - 1)


@summary(r'<(%s) as (?:num_traits::)?CheckedSub>::checked_sub' % INT)
def int_checked_sub(m, mt, args, tys, dty):
    x, y = deref(args[0]), deref(args[1])
    lo, hi = INT_RANGE[mt.group(1)]
    v = x - y
    ok = z3.And(v >= lo, v <= hi) if is_sym(v) else (lo <= v <= hi)
    if m.branch_bool(ok):
        return mk_enum('Option', 'Some', [v])
    return NONE()


@summary(r'<(%s) as num_traits::ToPrimitive>::to_(%s)' % (INT, INT))
def int_to_prim(m, mt, args, tys, dty):
    x = deref(args[0])
    lo, hi = INT_RANGE[mt.group(2)]
    ok = z3.And(x >= lo, x <= hi) if is_sym(x) else (lo <= x <= hi)
    if m.branch_bool(ok):
        return some(x)
    return NONE()


@summary(r'core::num::<impl (%s)>::pow' % INT)
def int_pow(m, mt, args, tys, dty):
    base, e = args
    e = m.concretize(e)
    if is_sym(base):
        raise Unsupported('pow symbolic base')
    v = base ** e
    lo, hi = INT_RANGE[mt.group(1)]
    if not (lo <= v <= hi):
        raise Panic('ArithOverflow', 'pow overflow %d^%d' % (base, e))
    return v


@summary(r'<(%s) as (?:num_integer::)?Integer>::div_rem' % INT)
def int_div_rem(m, mt, args, tys, dty):
    x, y = deref(args[0]), deref(args[1])
    if m.branch_bool(y == 0):
        raise Panic('DivByZero', 'div_rem by zero')
    q, r = m.tdivrem(x, y)
    return Agg('tuple', '()', [q, r])


@summary(r'<(%s) as num_traits::(Zero|One)>::is_(zero|one)' % INT)
def int_is_zero_one(m, mt, args, tys, dty):
    x = deref(args[0])
    return x == (0 if mt.group(3) == 'zero' else 1)


@summary(r'core::num::<impl (%s)>::checked_neg' % INT)
def int_checked_neg(m, mt, args, tys, dty):
    x = args[0]
    lo, hi = INT_RANGE[mt.group(1)]
    v = -x
    ok = z3.And(v >= lo, v <= hi) if is_sym(v) else (lo <= v <= hi)
    if m.branch_bool(ok):
        return some(v)
    return NONE()


@summary(r'<(%s) as std::ops::Neg>::neg' % INT)
def int_neg(m, mt, args, tys, dty):
    x = args[0]
    lo, hi = INT_RANGE[mt.group(1)]
    if m.branch_bool(x == lo):
        raise Panic('ArithOverflow', 'neg overflow')
    return -x


@summary(r'std::cmp::(max|min)::<(%s)>' % INT)
def cmp_maxmin(m, mt, args, tys, dty):
    x, y = args
    if not is_sym(x) and not is_sym(y):
        return max(x, y) if mt.group(1) == 'max' else min(x, y)
    c = (x >= y) if mt.group(1) == 'max' else (x <= y)
    return x if m.branch_bool(c) else y


@summary(r'<(%s) as Clone>::clone' % INT)
def int_clone(m, mt, args, tys, dty):
    return deref(args[0])


# ------------------------------------------------------------------ Option / closures / ranges

@summary(r'Option::<.*>::and_then::<.*>')
def option_and_then(m, mt, args, tys, dty):
    opt, f = args
    if opt.variant == 'None':
        return NONE()
    return call_callable(m, f, [opt.fields[0]], dty)


@summary(r'Option::<.*>::(expect|unwrap)')
def option_expect(m, mt, args, tys, dty):
    opt = args[0]
    if opt.variant == 'None':
        raise Panic('UnwrapNone', 'expect/unwrap on None')
    return opt.fields[0]


@summary(r'Option::<.*>::is_some_and::<.*>')
def option_is_some_and(m, mt, args, tys, dty):
    opt, f = args
    if opt.variant == 'None':
        return False
    return call_callable(m, f, [opt.fields[0]], dty)


@summary(r'<\{closure@[^}]*\} as Fn(?:Mut|Once)?<\(.*\)>>::call(?:_mut|_once)?')
def closure_call(m, mt, args, tys, dty):
    clo, tup = args
    return call_callable(m, clo, list(tup.fields), dty)


def call_callable(m, f, actuals, dty):
    fv = deref(f)
    if isinstance(fv, Agg) and fv.kind == 'closure':
        body = m.prog.closures.get(strip_lifetimes(fv.name))
        if body is None:
            raise Unsupported('closure body? ' + fv.name)
        p0 = strip_lifetimes(body.params[0][1])
        if p0.startswith('&'):
            self_arg = f if isinstance(f, Ref) else Ref([fv], 0)
        else:
            self_arg = fv
        # inherit generic bindings of the defining frame: approximated by current tyenv stack top
        return m.call_body(body, [self_arg] + actuals, m.cur_tyenv())
    if isinstance(fv, FnItem):
        return m.call(fv.path, actuals, ['?'] * len(actuals), dty)
    raise Unsupported('callable %r' % (fv,))


@summary(r'<std::ops::Range<(%s)> as IntoIterator>::into_iter' % INT)
def range_into_iter(m, mt, args, tys, dty):
    return args[0]


@summary(r'<std::ops::Range<(%s)> as Iterator>::next' % INT)
def range_next(m, mt, args, tys, dty):
    r = deref(args[0])
    start, end = r.fields
    if m.branch_bool(start < end):
        r.fields[0] = start + 1
        return some(start)
    return NONE()


@summary(r'std::mem::swap::<.*>')
def mem_swap(m, mt, args, tys, dty):
    a, b = args
    x, y = a.get(), b.get()
    a.set(y)
    b.set(x)
    return Agg('tuple', '()', [])


# ------------------------------------------------------------------ Vec / slice / iterators (concrete length, symbolic content)

class VecV:
    def __init__(self, items):
        self.items = list(items)

    def __repr__(self):
        return 'Vec%r' % (self.items,)


class SliceV:
    """view into a python list"""
    def __init__(self, base, lo, hi):
        self.base, self.lo, self.hi = base, lo, hi

    def __len__(self):
        return self.hi - self.lo

    def get(self, i):
        return self.base[self.lo + i]

    def ref(self, i):
        return Ref(self.base, self.lo + i)

    def __repr__(self):
        return 'Slice%r' % (self.base[self.lo:self.hi],)


class IterV:
    def __init__(self, sl, rev=False):
        self.sl, self.front, self.back, self.rev = sl, 0, len(sl), rev


def as_slice(v):
    v = deref(v)
    if isinstance(v, VecV):
        return SliceV(v.items, 0, len(v.items))
    if isinstance(v, SliceV):
        return v
    if isinstance(v, list):
        return SliceV(v, 0, len(v))
    if isinstance(v, StrV):
        return SliceV(v.items, 0, len(v.items))
    if isinstance(v, (bytes, bytearray)):
        items = list(v)
        return SliceV(items, 0, len(items))
    if isinstance(v, str):
        items = [ord(c) for c in v]
        return SliceV(items, 0, len(items))
    raise Unsupported('as_slice %r' % (v,))


DIGIT_BOUND = [12]   # harness-settable: max decimal digits materialised


@summary(r'(?:num_bigint::)?Big(Int|Uint)::to_radix_(le|be)')
def big_to_radix(m, mt, args, tys, dty):
    x = deref(args[0])
    radix = args[1]
    if is_sym(radix) or not (2 <= radix <= 256):
        raise Unsupported('to_radix with radix %r' % (radix,))
    R = radix
    mag = zabs(x)
    D = DIGIT_BOUND[0]
    if R != 10:
        D = int(math.ceil(D / math.log10(R))) + 1          # the bound is stated in decimal digits
    if not is_sym(mag):
        ds = []
        v = mag
        while v:
            ds.append(v % R)
            v //= R
        ds = ds or [0]
    else:
        # fork over digit count
        k = m.choose_n(D + 2, lambda d: (mag == 0) if d == 0 else ((mag >= R ** D) if d == D + 1 else z3.And(mag >= R ** (d - 1), mag < R ** d)))
        if k == D + 1:
            raise BoundExceeded('to_radix: more than %d digits' % D)
        if k == 0:
            ds = [0]
        else:
            ds = [m.fresh('d') for _ in range(k)]
            m.mark_aux(ds)          # R^(k-1) <= mag < R^k is already in the path condition: the digits always exist
            for dgt in ds:
                m.assume(z3.And(dgt >= 0, dgt <= R - 1), aux=True)
                m.set_bounds(dgt, 0, R - 1)
            m.assume(ds[-1] >= 1, aux=True)
            m.assume(mag == z3.Sum([dgt * R ** i for i, dgt in enumerate(ds)]), aux=True)
            # remember which integer these digits spell (most significant first), so that an oracle reading the
            # text back can name the integer directly instead of making the solver re-sum the digits
            if R == 10:
                if not hasattr(m, 'radix_origin'):
                    m.radix_origin = {}
                m.radix_origin[tuple(dgt.get_id() for dgt in reversed(ds))] = mag
    if mt.group(2) == 'be':
        ds = list(reversed(ds))
    vec = VecV(ds)
    if mt.group(1) == 'Uint':
        return vec
    return Agg('tuple', '()', [big_sign(m, None, [Ref([x], 0)], None, None), vec])


@summary(r'(?:num_bigint::)?BigInt::from_radix_(le|be)')
def big_from_radix(m, mt, args, tys, dty):
    sign, sl, radix = args
    sl = as_slice(sl)
    ds = [sl.get(i) for i in range(len(sl))]
    if mt.group(1) == 'be':
        ds = list(reversed(ds))
    bad = [d >= radix for d in ds]
    anybad = z3.Or([b for b in bad if is_sym(b)] + [z3.BoolVal(True) for b in bad if b is True]) if any(is_sym(b) or b is True for b in bad) else False
    if m.branch_bool(anybad):
        return NONE()
    mag = sum(d * 10 ** i for i, d in enumerate(ds)) if ds else 0
    v = sign.variant
    # num-bigint: from_biguint(sign, mag): NoSign -> zero ; magnitude zero -> NoSign
    val = -mag if v == 'Minus' else (0 if v == 'NoSign' else mag)
    return some(val)


@summary(r'(?:num_bigint::)?BigInt::new')
def bigint_new(m, mt, args, tys, dty):
    sign, vec = args
    words = deref(vec).items
    mag = sum(w * 2 ** (32 * i) for i, w in enumerate(words)) if words else 0
    v = sign.variant
    return -mag if v == 'Minus' else (0 if v == 'NoSign' else mag)


@summary(r'std::vec::Vec::<.*>::len')
def vec_len(m, mt, args, tys, dty):
    return len(deref(args[0]).items)


@summary(r'<std::vec::Vec<.*> as Deref(Mut)?>::deref(_mut)?')
def vec_deref(m, mt, args, tys, dty):
    return as_slice(args[0])


@summary(r'std::vec::Vec::<.*>::as_slice')
def vec_as_slice(m, mt, args, tys, dty):
    return as_slice(args[0])


@summary(r'std::vec::Vec::<.*>::push')
def vec_push(m, mt, args, tys, dty):
    deref(args[0]).items.append(args[1])
    return Agg('tuple', '()', [])


@summary(r'std::vec::Vec::<.*>::truncate')
def vec_truncate(m, mt, args, tys, dty):
    n = m.concretize(args[1])
    v = deref(args[0])
    del v.items[n:]
    return Agg('tuple', '()', [])


@summary(r'<std::vec::Vec<.*> as Index(Mut)?<usize>>::index(_mut)?')
def vec_index(m, mt, args, tys, dty):
    v = deref(args[0])
    i = m.concretize(args[1])
    if i < 0 or i >= len(v.items):
        raise Panic('IndexOOB', 'index %d len %d' % (i, len(v.items)))
    return Ref(v.items, i)


@summary(r'<std::vec::Vec<.*> as Index(Mut)?<(?:std::ops::)?Range(From|To|Full)?(?:<usize>)?>>::index(_mut)?')
def vec_index_range(m, mt, args, tys, dty):
    v = deref(args[0])
    r = args[1]
    n = len(v.items)
    kind = mt.group(2)
    if kind is None:
        lo, hi = m.concretize(r.fields[0]), m.concretize(r.fields[1])
    elif kind == 'From':
        lo, hi = m.concretize(r.fields[0]), n
    elif kind == 'To':
        lo, hi = 0, m.concretize(r.fields[0])
    else:
        lo, hi = 0, n
    if lo > hi or hi > n:
        raise Panic('IndexOOB', 'range %d..%d len %d' % (lo, hi, n))
    return SliceV(v.items, lo, hi)


@summary(r'core::slice::<impl \[.*\]>::split_(last|first)')
def slice_split_last(m, mt, args, tys, dty):
    sl = as_slice(args[0])
    if len(sl) == 0:
        return NONE()
    if mt.group(1) == 'last':
        return some(Agg('tuple', '()', [sl.ref(len(sl) - 1), SliceV(sl.base, sl.lo, sl.hi - 1)]))
    return some(Agg('tuple', '()', [sl.ref(0), SliceV(sl.base, sl.lo + 1, sl.hi)]))


@summary(r'core::slice::<impl \[.*\]>::iter')
def slice_iter(m, mt, args, tys, dty):
    return IterV(as_slice(args[0]))


@summary(r'<std::slice::Iter<.*> as Iterator>::rev')
def iter_rev(m, mt, args, tys, dty):
    it = args[0]
    it.rev = not it.rev
    return it


def iter_next(it):
    if it.front >= it.back:
        return None
    if it.rev:
        it.back -= 1
        return it.sl.ref(it.back)
    it.front += 1
    return it.sl.ref(it.front - 1)


@summary(r'#superseded-by-generic_iter_all')
def iter_all(m, mt, args, tys, dty):
    it = deref(args[0])
    f = args[1]
    is_all = mt.group(1) == 'all'
    while True:
        e = iter_next(it)
        if e is None:
            return is_all
        r = call_callable(m, f, [e], 'bool')
        b = m.branch_bool(r)
        if is_all and not b:
            return False
        if not is_all and b:
            return True


@summary(r'Option::<.*>::unwrap_or')
def option_unwrap_or(m, mt, args, tys, dty):
    opt, dflt = args
    return dflt if opt.variant == 'None' else opt.fields[0]


@summary(r'Box::<\[.*\]>::new_uninit')
def box_new_uninit(m, mt, args, tys, dty):
    return Agg('box', 'Box', [Agg('box', 'Unique', [Agg('boxptr', 'NonNull', [None])])])


@summary(r'std::boxed::box_assume_init_into_vec_unsafe::<.*>')
def box_into_vec(m, mt, args, tys, dty):
    cell = args[0].fields[0].fields[0]
    arr = cell.fields[0]
    return VecV(list(arr))


@summary(r'<num_bigint::Sign as PartialEq>::(eq|ne)')
def sign_eq(m, mt, args, tys, dty):
    a, b = deref(args[0]), deref(args[1])
    r = a.variant == b.variant
    return r if mt.group(1) == 'eq' else not r


@summary(r'<u8 as num_traits::Zero>::is_zero')
def u8_is_zero(m, mt, args, tys, dty):
    return deref(args[0]) == 0


# ------------------------------------------------------------------ spike part (b): comparison kernels

BITS_MODE = ['uf', 128]    # ('uf'|'table', max bits)


@summary(r'(?:num_bigint::)?Big(?:Int|Uint)::bits#table')
def _unused(m, mt, args, tys, dty):
    pass


def bits_table(m, x):
    B = BITS_MODE[1]
    if m.feasible(x >= 2 ** B):
        raise BoundExceeded('bits: value may exceed 2^%d' % B)
    b = m.fresh('bits')
    m.assume(z3.And(b >= 0, b <= B))
    m.assume(z3.And([z3.Implies(b == 0, x == 0)] + [z3.Implies(b == k, z3.And(x >= 2 ** (k - 1), x < 2 ** k)) for k in range(1, B + 1)]))
    return b


_orig_bits = big_bits


def big_bits2(m, mt, args, tys, dty):
    x = zabs(deref(args[0]))
    if not is_sym(x):
        return x.bit_length()
    if BITS_MODE[0] == 'table':
        return bits_table(m, x)
    if BITS_MODE[0] == 'model':
        # fork on the bit length around the value of one model (the value is confined to a narrow range on the path);
        # a feasible length outside the window ends the path as BoundExceeded (never silently dropped)
        W = BITS_MODE[1] or 4
        pos = len(m.decisions)
        if pos < len(m.prefix):
            k = m.prefix[pos]
            m.decisions.append(k)
            b = k[1]
            m.assume(z3.And(x >= 2 ** (b - 1), x < 2 ** b) if b > 0 else (x == 0))
            return b
        m.solver.push()
        r = m.solver.check()
        if r != z3.sat:
            m.solver.pop()
            r2, mdl = m.check_fresh(True, want_model=True)
            if r2 != z3.sat:
                raise Infeasible()
        else:
            mdl = m.solver.model()
            m.solver.pop()
        b0 = mdl.eval(x, model_completion=True).as_long().bit_length()
        cands = [b for b in range(max(0, b0 - W), b0 + W + 1)]
        feas = [b for b in cands if m.feasible(z3.And(x >= 2 ** (b - 1), x < 2 ** b) if b > 0 else (x == 0))]
        lo, hi = min(cands), max(cands)
        if m.feasible(z3.Or(x >= 2 ** hi, x < (2 ** (lo - 1) if lo > 0 else 0))):
            raise BoundExceeded('bits: value not confined to the window %d..%d' % (lo, hi))
        if not feas:
            raise Infeasible()
        for b in feas[1:]:
            m.worklist.append(tuple(m.decisions) + (('bits', b),))
        b = feas[0]
        m.decisions.append(('bits', b))
        m.assume(z3.And(x >= 2 ** (b - 1), x < 2 ** b) if b > 0 else (x == 0))
        return b
    if BITS_MODE[0] == 'ladder':
        # exact bit length up to B bits by true threshold facts (b > t  <=>  x >= 2^t), monotone beyond: used to refine a
        # counterexample found under the uninterpreted abstraction (whose models need not respect the real bits())
        B = BITS_MODE[1] or 192
        b = m.fresh('bits')
        m.assume(z3.And(b >= 0, (b == 0) == (x == 0)))
        m.assume(z3.And([(b > t) == (x >= 2 ** t) for t in range(0, B + 1)]))
        if not hasattr(m, 'bits_instances'):
            m.bits_instances = []
        for (x2, b2) in m.bits_instances:
            m.assume(z3.And(z3.Implies(x <= x2, b <= b2), z3.Implies(x2 <= x, b2 <= b)))
        m.bits_instances.append((x, b))
        return b
    if BITS_MODE[0] == 'fixed':
        # harness promises 2^(b-1) <= x < 2^b (b = BITS_MODE[1]); verified here with one query
        b = BITS_MODE[1]
        inside = z3.And(x >= 2 ** (b - 1), x < 2 ** b) if b > 0 else (x == 0)
        if m.feasible(z3.Not(inside)):
            raise Unsupported('bits: value not confined to bit length %d' % b)
        return b
    return _orig_bits(m, mt, args, tys, dty)


for i, (n, rx, fn) in enumerate(SUMMARIES):
    if n == 'big_bits':
        SUMMARIES[i] = (n, rx, big_bits2)


@summary(r'core::num::<impl (%s)>::checked_(add|sub|mul)' % INT)
def int_checked_arith(m, mt, args, tys, dty):
    x, y = args
    lo, hi = INT_RANGE[mt.group(1)]
    v = {'add': x + y, 'sub': x - y, 'mul': x * y}[mt.group(2)]
    ok = z3.And(v >= lo, v <= hi) if is_sym(v) else (lo <= v <= hi)
    if m.branch_bool(ok):
        return some(v)
    return NONE()


class U32Digits:
    def __init__(self, words):
        self.words, self.pos = words, 0


WORD_BOUND = [3]


@summary(r'(?:num_bigint::)?Big(?:Uint|Int)::iter_u32_digits')
def big_iter_u32(m, mt, args, tys, dty):
    x = zabs(deref(args[0]))
    W = WORD_BOUND[0]
    if not is_sym(x):
        ws = []
        while x:
            ws.append(x & 0xffffffff)
            x >>= 32
        return U32Digits(ws)
    k = m.choose_n(W + 2, lambda w: (x == 0) if w == 0 else ((x >= 2 ** (32 * W)) if w == W + 1 else z3.And(x >= 2 ** (32 * (w - 1)), x < 2 ** (32 * w))))
    if k == W + 1:
        raise BoundExceeded('iter_u32_digits: more than %d words' % W)
    ws = [m.fresh('w') for _ in range(k)]
    for w in ws:
        m.assume(z3.And(w >= 0, w < 2 ** 32))
        m.set_bounds(w, 0, 2 ** 32 - 1)
    if ws:
        m.assume(ws[-1] >= 1)
        m.assume(x == z3.Sum([w * 2 ** (32 * i) for i, w in enumerate(ws)]))
    return U32Digits(ws)


@summary(r'(?:num_bigint::)?Big(?:Uint|Int)::iter_u64_digits')
def big_iter_u64(m, mt, args, tys, dty):
    x = zabs(deref(args[0]))          # BigInt::iter_u64_digits iterates over the magnitude
    W = max(2, (WORD_BOUND[0] + 1) // 2)
    if not is_sym(x):
        ws = []
        while x:
            ws.append(x & 0xffffffffffffffff)
            x >>= 64
        return U32Digits(ws)
    k = m.choose_n(W + 2, lambda w: (x == 0) if w == 0 else ((x >= 2 ** (64 * W)) if w == W + 1 else z3.And(x >= 2 ** (64 * (w - 1)), x < 2 ** (64 * w))))
    if k == W + 1:
        raise BoundExceeded('iter_u64_digits: more than %d words' % W)
    ws = [m.fresh('w') for _ in range(k)]
    for w in ws:
        m.assume(z3.And(w >= 0, w < 2 ** 64))
        m.set_bounds(w, 0, 2 ** 64 - 1)
    if ws:
        m.assume(ws[-1] >= 1)
        m.assume(x == z3.Sum([w * 2 ** (64 * i) for i, w in enumerate(ws)]))
    return U32Digits(ws)


@summary(r'<(?:num_bigint::(?:biguint::)?(?:iter::)?)?U(?:32|64)Digits as Iterator>::next')
def u32digits_next(m, mt, args, tys, dty):
    it = deref(args[0])
    if it.pos >= len(it.words):
        return NONE()
    it.pos += 1
    return some(it.words[it.pos - 1])


@summary(r"BigDecimalRef::sign#")
def _unused2(m, mt, args, tys, dty):
    pass


# ------------------------------------------------------------------ spike part (d): division

@summary(r'<%s as (?:num_integer::)?Integer>::div_rem' % BIG)
def big_div_rem(m, mt, args, tys, dty):
    x, d = deref(args[0]), deref(args[1])
    if m.branch_bool(d == 0):
        raise Panic('DivByZero', 'BigInt div_rem by zero')
    q, r = m.tdivrem(x, d)
    return Agg('tuple', '()', [q, r])


@summary(r'<%s as num_traits::Signed>::is_(negative|positive)' % BIG)
def big_is_neg(m, mt, args, tys, dty):
    x = deref(args[0])
    return x < 0 if mt.group(1) == 'negative' else x > 0


# ------------------------------------------------------------------ spike part (c): strings, fmt, parsing

class IntRender:
    """a run of characters that is the decimal rendering of Int term `t` (sign '+' forced when plus)"""
    def __init__(self, t, plus):
        self.t, self.plus = t, plus

    def __repr__(self):
        return '{int%s:%s}' % ('+' if self.plus else '', self.t)


class StrV:
    def __init__(self, chars=()):
        self.items = list(chars)    # same attr name as VecV so slices work on both

    def __repr__(self):
        return 'Str(%s)' % show(self.items)


def show(items):
    out = []
    for c in items:
        if isinstance(c, int):
            out.append(chr(c))
        elif isinstance(c, IntRender):
            out.append(repr(c))
        else:
            out.append('<%s>' % c)
    return ''.join(out)


def str_items(v):
    v = deref(v)
    if isinstance(v, str):
        return [ord(c) for c in v]
    if isinstance(v, (StrV, VecV)):
        return v.items
    if isinstance(v, SliceV):
        return v.base[v.lo:v.hi]
    if isinstance(v, list):
        return v
    raise Unsupported('str_items %r' % (v,))


def str_slice(v):
    v = deref(v)
    if isinstance(v, str):
        it = [ord(c) for c in v]
        return SliceV(it, 0, len(it))
    if isinstance(v, (StrV, VecV)):
        return SliceV(v.items, 0, len(v.items))
    if isinstance(v, SliceV):
        return v
    if isinstance(v, list):
        return SliceV(v, 0, len(v))
    raise Unsupported('str_slice %r' % (v,))


@summary(r'(?:num_bigint::)?Big(?:Int|Uint)::to_str_radix')
def big_to_str_radix(m, mt, args, tys, dty):
    x = deref(args[0])
    # decide the sign before the digit expansion: the query is much cheaper without the digit-sum constraint
    neg = m.branch_bool(x < 0) if (is_sym(x) or x < 0) else False
    vec = big_to_radix(m, re.match(r'.*Big(Int|Uint)::to_radix_(le|be)', 'BigUint::to_radix_be'), [Ref([-x if neg else x], 0), args[1]], tys, dty)
    chars = [d + 48 for d in vec.items]
    if neg:
        chars = [45] + chars
    return StrV(chars)


@summary(r'std::string::String::new')
def string_new(m, mt, args, tys, dty):
    return StrV()


@summary(r'std::string::String::(into_bytes)')
def string_into_bytes(m, mt, args, tys, dty):
    return VecV(str_items(args[0]))


@summary(r'std::string::String::from_utf8')
def string_from_utf8(m, mt, args, tys, dty):
    return mk_enum('Result', 'Ok', [StrV(deref(args[0]).items)])


@summary(r'Result::<.*>::unwrap')
def result_unwrap(m, mt, args, tys, dty):
    r = args[0]
    if r.variant == 'Err':
        raise Panic('UnwrapErr', 'unwrap on Err')
    return r.fields[0]


@summary(r'<std::string::String as Deref>::deref|std::string::String::as_str')
def string_deref(m, mt, args, tys, dty):
    return str_slice(args[0])


def int_render_len(m, c, max_digits=45):
    """number of characters of a rendered (possibly symbolic) integer: forks on sign and digit count"""
    t = c.t
    if not is_sym(t):
        return len(('+' if (c.plus and t >= 0) else '') + str(t))
    neg = m.branch_bool(t < 0)
    mag = -t if neg else t
    d = m.choose_n(max_digits + 1, lambda k: (mag == 0) if k == 0 else (z3.And(mag >= 10 ** (k - 1), mag < 10 ** k) if k < max_digits else mag >= 10 ** (max_digits - 1)))
    if d == max_digits:
        raise BoundExceeded('rendered integer with more than %d digits' % (max_digits - 1))
    return (1 if d == 0 else d) + (1 if (neg or c.plus) else 0)


@summary(r'std::string::String::len|core::str::<impl str>::len')
def string_len(m, mt, args, tys, dty):
    it = str_items(args[0])
    n = 0
    for c in it:
        if isinstance(c, IntRender):
            n += int_render_len(m, c)
        else:
            n += 1
    return n


@summary(r'core::str::<impl str>::is_empty')
def str_is_empty(m, mt, args, tys, dty):
    return len(str_items(args[0])) == 0


@summary(r'std::string::String::push_str')
def string_push_str(m, mt, args, tys, dty):
    deref(args[0]).items.extend(str_items(args[1]))
    return Agg('tuple', '()', [])


@summary(r'std::string::String::reserve')
def string_reserve(m, mt, args, tys, dty):
    return Agg('tuple', '()', [])


@summary(r'std::string::String::insert')
def string_insert(m, mt, args, tys, dty):
    s = deref(args[0])
    i = m.concretize(args[1])
    if i > len(s.items):
        raise Panic('IndexOOB', 'String::insert')
    s.items.insert(i, args[2] if not isinstance(args[2], str) else ord(args[2]))
    return Agg('tuple', '()', [])


@summary(r'<std::string::String as From<&str>>::from|<&str as Into<std::string::String>>::into|<str as std::string::ToString>::to_string')
def string_from_str(m, mt, args, tys, dty):
    return StrV(str_items(args[0]))


@summary(r'std::vec::Vec::<u8>::resize')
def vec_resize(m, mt, args, tys, dty):
    v = deref(args[0])
    n = m.concretize(args[1])
    if n > 100000:
        raise BoundExceeded('resize to %d' % n)
    if n <= len(v.items):
        del v.items[n:]
    else:
        v.items.extend([args[2]] * (n - len(v.items)))
    return Agg('tuple', '()', [])


@summary(r'std::vec::Vec::<u8>::insert')
def vec_insert(m, mt, args, tys, dty):
    v = deref(args[0])
    i = m.concretize(args[1])
    if i > len(v.items):
        raise Panic('IndexOOB', 'Vec::insert')
    v.items.insert(i, args[2])
    return Agg('tuple', '()', [])


@summary(r'std::vec::Vec::<u8>::clear')
def vec_clear(m, mt, args, tys, dty):
    deref(args[0]).items[:] = []
    return Agg('tuple', '()', [])


def char_eq(m, c, pat):
    """does char c equal concrete code pat?  (forks if symbolic)"""
    if isinstance(c, IntRender):
        return False if pat not in (43, 45) and not (48 <= pat <= 57) else None
    if isinstance(c, int):
        return c == pat
    return m.branch_bool(c == pat)


@summary(r'core::str::<impl str>::find::<(char|&\[char\])>')
def str_find(m, mt, args, tys, dty):
    it = str_items(args[0])
    pat = deref(args[1])
    pats = [pat] if not isinstance(pat, (list, SliceV)) else (pat if isinstance(pat, list) else pat.base[pat.lo:pat.hi])
    pats = [ord(p) if isinstance(p, str) else p for p in pats]
    for i, c in enumerate(it):
        for p in pats:
            r = char_eq(m, c, p)
            if r is None:
                raise Unsupported('find inside integer rendering')
            if r:
                return some(i)
    return NONE()


def _utf8_continuation(sl, i):
    """strings are UTF-8 byte sequences (ASCII text coincides with its chars): is byte offset i inside a multi-byte char?"""
    if 0 < i < len(sl):
        b = sl.base[sl.lo + i]
        return isinstance(b, int) and 0x80 <= b <= 0xBF
    return False


def _utf8_decode(items):
    """code points of a byte list; symbolic items (harness: ASCII by assumption) and ASCII bytes pass through"""
    out, i = [], 0
    while i < len(items):
        b = items[i]
        if not isinstance(b, int) or b < 0x80:
            out.append(b)
            i += 1
            continue
        n = 2 if b >> 5 == 0b110 else (3 if b >> 4 == 0b1110 else (4 if b >> 3 == 0b11110 else 1))
        tail = items[i + 1:i + n]
        if n == 1 or len(tail) != n - 1 or not all(isinstance(t, int) and 0x80 <= t <= 0xBF for t in tail):
            out.append(0xFFFD)
            i += 1
            continue
        cp = b & (0xFF >> (n + 1))
        for t in tail:
            cp = (cp << 6) | (t & 0x3F)
        out.append(cp)
        i += n
    return out


@summary(r'core::str::<impl str>::split_at')
def str_split_at(m, mt, args, tys, dty):
    sl = str_slice(args[0])
    i = m.concretize(args[1])
    if i > len(sl):
        raise Panic('IndexOOB', 'split_at')
    if _utf8_continuation(sl, i):
        raise Panic('CharBoundary', 'split_at: byte index is not a char boundary')
    return Agg('tuple', '()', [SliceV(sl.base, sl.lo, sl.lo + i), SliceV(sl.base, sl.lo + i, sl.hi)])


@summary(r'<str as Index<(?:std::ops::)?Range(From|To)<usize>>>::index')
def str_index_range(m, mt, args, tys, dty):
    sl = str_slice(args[0])
    i = m.concretize(args[1].fields[0])
    if i > len(sl):
        raise Panic('IndexOOB', 'str index')
    if _utf8_continuation(sl, i):
        raise Panic('CharBoundary', 'str index: byte index is not a char boundary')
    if mt.group(1) == 'From':
        return SliceV(sl.base, sl.lo + i, sl.hi)
    return SliceV(sl.base, sl.lo, sl.lo + i)


@summary(r'core::str::<impl str>::chars')
def str_chars(m, mt, args, tys, dty):
    sl = str_slice(args[0])
    items = sl.base[sl.lo:sl.hi]
    if any(isinstance(b, int) and b >= 0x80 for b in items):
        dec = _utf8_decode(items)               # multi-byte chars: one char per sequence
        return CopiedV(IterV(SliceV(dec, 0, len(dec))))
    return CopiedV(IterV(sl))       # Chars yields char values, not references


@summary(r"#superseded-chars-filter")
def chars_filter(m, mt, args, tys, dty):
    return Agg('struct', 'Filter', [args[0], args[1]])


@summary(r"#superseded-filter-count")
def filter_count(m, mt, args, tys, dty):
    it, f = args[0].fields
    n = 0
    while True:
        e = iter_next(it)
        if e is None:
            return n
        r = call_callable(m, Ref([f], 0), [e], 'bool')
        if m.branch_bool(r):
            n += 1


def parse_int_chars(m, items, lo, hi):
    """-> ('ok', term) | ('err',)   for [+-]?digits"""
    if len(items) == 1 and isinstance(items[0], IntRender):
        t = items[0].t
        ok = z3.And(t >= lo, t <= hi) if is_sym(t) else (lo <= t <= hi)
        if m.branch_bool(ok):
            return ('ok', t)
        return ('err',)
    if any(isinstance(c, IntRender) for c in items):
        # [sign] 0* <rendered non-negative integer>: a zero-padded exponent
        body = list(items)
        sgn = 1
        if body and isinstance(body[0], int) and body[0] in (43, 45):
            sgn = -1 if body[0] == 45 else 1
            body = body[1:]
        while len(body) > 1 and isinstance(body[0], int) and body[0] == 48:
            body = body[1:]
        if len(body) == 1 and isinstance(body[0], IntRender) and not body[0].plus:
            t = body[0].t
            if not m.branch_bool(t >= 0):
                return ('err',)                 # "00-5" is not an integer
            val = sgn * t
            ok = z3.And(val >= lo, val <= hi) if is_sym(val) else (lo <= val <= hi)
            return ('ok', val) if m.branch_bool(ok) else ('err',)
        raise Unsupported('mixed integer rendering')
    if not items:
        return ('err',)
    sign = 1
    body = items
    first = items[0]
    if isinstance(first, int) and first in (43, 45):
        sign = -1 if first == 45 else 1
        body = items[1:]
    elif not isinstance(first, int):
        # symbolic first char: could it be a sign?
        if m.branch_bool(z3.Or(first == 43, first == 45)):
            sign = z3.If(first == 45, -1, 1)
            body = items[1:]
    if not body:
        return ('err',)
    val = 0
    for c in body:
        isd = z3.And(c >= 48, c <= 57) if is_sym(c) else (48 <= c <= 57)
        if not m.branch_bool(isd):
            return ('err',)
        val = val * 10 + (c - 48)
    val = sign * val
    ok = z3.And(val >= lo, val <= hi) if is_sym(val) else (lo <= val <= hi)
    if m.branch_bool(ok):
        return ('ok', val)
    return ('err',)


@summary(r'<(%s) as FromStr>::from_str' % INT)
def int_from_str(m, mt, args, tys, dty):
    lo, hi = INT_RANGE[mt.group(1)]
    r = parse_int_chars(m, str_items(args[0]), lo, hi)
    if r[0] == 'ok':
        return mk_enum('Result', 'Ok', [r[1]])
    return mk_enum('Result', 'Err', [Agg('struct', 'ParseIntError', [])])


@summary(r'<%s as num_traits::Num>::from_str_radix' % BIG)
def big_from_str_radix(m, mt, args, tys, dty):
    items = list(str_items(args[0]))
    radix = args[1]
    assert radix == 10
    err = lambda: mk_enum('Result', 'Err', [Agg('struct', 'ParseBigIntError', [])])
    # num-bigint 0.4.4: optional single '-' (BigInt) then optional single '+', non-empty, no leading '_', then digits/underscores
    neg = False
    def is_c(c, code):
        return (c == code) if isinstance(c, int) else m.branch_bool(c == code)
    if items and is_c(items[0], 45):
        if not (len(items) > 1 and is_c(items[1], 43)):
            items = items[1:]
        neg = True
    if items and is_c(items[0], 43):
        if not (len(items) > 1 and is_c(items[1], 43)):
            items = items[1:]
    if not items:
        return err()
    if is_c(items[0], 95):
        return err()
    val = 0
    for c in items:
        if is_c(c, 95):
            continue
        isd = z3.And(c >= 48, c <= 57) if is_sym(c) else (48 <= c <= 57)
        if not m.branch_bool(isd):
            return err()
        val = val * 10 + (c - 48)
    return mk_enum('Result', 'Ok', [-val if neg else val])


@summary(r'<Result<.*> as Try>::branch')
def result_branch(m, mt, args, tys, dty):
    r = args[0]
    if r.variant == 'Ok':
        return Agg('enum', 'ControlFlow', [r.fields[0]], 'Continue')
    return Agg('enum', 'ControlFlow', [mk_enum('Result', 'Err', [r.fields[0]])], 'Break')


from . import engine as _eng
_eng.ENUM_VARIANTS['ControlFlow'] = ['Continue', 'Break']


@summary(r'<Result<.*> as FromResidual<Result<Infallible, .*>>>::from_residual')
def result_from_residual(m, mt, args, tys, dty):
    e = args[0].fields[0]
    return mk_enum('Result', 'Err', [Agg('struct', 'ConvertedError', [e])])


@summary(r'Option::<.*>::ok_or_else::<.*>')
def option_ok_or_else(m, mt, args, tys, dty):
    opt, f = args
    if opt.variant == 'Some':
        return mk_enum('Result', 'Ok', [opt.fields[0]])
    return mk_enum('Result', 'Err', [Agg('struct', 'LazyError', [])])   # message formatting skipped (format! stub)


@summary(r'Option::<.*>::map::<.*>')
def option_map(m, mt, args, tys, dty):
    opt, f = args
    if opt.variant == 'None':
        return NONE()
    return some(call_callable(m, f, [opt.fields[0]], dty))


@summary(r'Option::<.*>::or')
def option_or(m, mt, args, tys, dty):
    return args[0] if args[0].variant == 'Some' else args[1]


@summary(r'Option::<.*>::is_(none|some)')
def option_is_none(m, mt, args, tys, dty):
    return (deref(args[0]).variant == 'None') == (mt.group(1) == 'none')


@summary(r'NonZero::<(%s)>::new' % INT)
def nonzero_new(m, mt, args, tys, dty):
    x = args[0]
    if m.branch_bool(x == 0):
        return NONE()
    return some(x)


@summary(r'NonZero::<(%s)>::get' % INT)
def nonzero_get(m, mt, args, tys, dty):
    return args[0]


@summary(r'core::num::<impl (%s)>::saturating_(add|sub)' % INT)
def int_saturating(m, mt, args, tys, dty):
    x, y = args
    lo, hi = INT_RANGE[mt.group(1)]
    v = x + y if mt.group(2) == 'add' else x - y
    if is_sym(v):
        return z3.If(v > hi, hi, z3.If(v < lo, lo, v))
    return max(lo, min(hi, v))


# ---- fmt

class FmtV:
    def __init__(self, precision=None, plus=False):
        self.precision, self.plus, self.out = precision, plus, []


@summary(r"Formatter::precision")
def fmt_precision(m, mt, args, tys, dty):
    f = deref(args[0])
    return NONE() if f.precision is None else some(f.precision)


@summary(r"Formatter::pad_integral")
def fmt_pad_integral(m, mt, args, tys, dty):
    f, nonneg, prefix, buf = args
    f = deref(f)
    nn = m.branch_bool(nonneg)
    pad = getattr(f, 'pad', None)
    if pad and pad.get('width') is not None:
        f.out.extend(_apply_padding(list(str_items(buf)), pad, 1, '' if (nn and not f.plus) else ('+' if nn else '-')))
    else:
        if not nn:
            f.out.append(45)
        elif f.plus:
            f.out.append(43)
        f.out.extend(str_items(buf))
    if not hasattr(f, 'calls'):
        f.calls = []
    f.calls.append((nn, list(str_items(prefix)), list(str_items(buf))))
    return mk_enum('Result', 'Ok', [Agg('tuple', '()', [])])


class ArgV:
    def __init__(self, kind, ty, ref):
        self.kind, self.ty, self.ref = kind, ty, ref


@summary(r"core::fmt::rt::Argument::new_(display|debug)::<(.*)>")
def fmt_arg_new(m, mt, args, tys, dty):
    return ArgV(mt.group(1), mt.group(2), args[0])


class ArgsV:
    def __init__(self, template, args):
        self.template, self.args = template, args


def parse_byte_literal(s):
    assert s.startswith('b"') and s.endswith('"')
    body = s[2:-1]
    out = bytearray()
    i = 0
    while i < len(body):
        c = body[i]
        if c == '\\':
            n = body[i + 1]
            if n == 'x':
                out.append(int(body[i + 2:i + 4], 16)); i += 4; continue
            out.append({'n': 10, 't': 9, 'r': 13, '0': 0, '\\': 92, '"': 34, "'": 39}[n]); i += 2; continue
        out += c.encode('utf-8')
        i += 1
    return bytes(out)


@summary(r"Arguments::new::<\d+, \d+>")
def fmt_arguments_new(m, mt, args, tys, dty):
    tmpl, arr = args
    if isinstance(tmpl, str):
        raise Unsupported('template as str')
    return ArgsV(tmpl, deref(arr))


def render_arg(m, a, plus, out):
    v = deref(a.ref)
    t = a.ty
    if re.fullmatch(INT, t):
        if is_sym(v):
            out.append(IntRender(v, plus))
        else:
            s = str(v)
            if plus and v >= 0:
                s = '+' + s
            out.extend(ord(c) for c in s)
    elif t in ('&str', 'str', 'std::string::String', 'String', '&std::string::String'):
        out.extend(str_items(v))
    elif t in ('num_bigint::BigInt', 'BigInt', 'num_bigint::BigUint', 'BigUint', '&num_bigint::BigInt', '&num_bigint::BigUint') or ('Cow<' in t and isinstance(v, Agg) and v.name == 'Cow'):
        if isinstance(v, Agg) and v.name == 'Cow':
            v = deref(v.fields[0])
        st = big_to_str_radix(m, None, [Ref([v], 0), 10], None, None)
        out.extend(st.items)
    else:
        # a type of the crate: run its own Display/Debug body on a fresh formatter with default options
        f = FmtV()
        trait = 'std::fmt::Display' if a.kind == 'display' else 'std::fmt::Debug'
        tt = t[1:] if t.startswith('&') and not isinstance(a.ref.get(), Ref) else t
        m.call('<%s as %s>::fmt' % (tt, trait), [a.ref, Ref([f], 0)], ['&' + tt, '&mut Formatter'], 'Result<(), Error>')
        out.extend(f.out)


def _apply_padding(body, opt, default_align, numeric_sign=None):
    """std padding semantics on a rendered body (list of char codes); numeric_sign: '' | '-' | '+' for integers (else None)"""
    width = opt.get('width')
    fill = opt.get('fill', 32)
    align = opt.get('align', 3)
    if numeric_sign is not None:
        signs = [ord(c) for c in numeric_sign]
        if width is None:
            return signs + body
        if opt.get('zero'):
            pad = max(0, width - len(body) - len(signs))
            return signs + [48] * pad + body
        body = signs + body
    if width is None or len(body) >= width:
        return body
    pad = width - len(body)
    al = default_align if align == 3 else align
    if al == 0:
        return body + [fill] * pad
    if al == 1:
        return [fill] * pad + body
    return [fill] * (pad // 2) + body + [fill] * (pad - pad // 2)


def render_arg_opts(m, a, opt, out):
    v = deref(a.ref)
    t = a.ty
    plus = opt.get('plus', False)
    plain = opt.get('width') is None and opt.get('precision') is None
    if re.fullmatch(INT, t):
        if is_sym(v):
            if not plain:
                raise Unsupported('padded rendering of a symbolic integer')
            out.append(IntRender(v, plus))
            return
        body = [ord(c) for c in str(abs(v))]
        sign = '-' if v < 0 else ('+' if plus else '')
        out.extend(_apply_padding(body, opt, 1, sign))
        return
    if t in ('&str', 'str', 'std::string::String', 'String', '&std::string::String', 'char'):
        items = list(str_items(v)) if t != 'char' else [v if not isinstance(v, str) else ord(v)]
        if any(isinstance(c, IntRender) for c in items) and not plain:
            raise Unsupported('padded rendering of a string with a symbolic integer rendering')
        if opt.get('precision') is not None:
            items = items[:opt['precision']]
        out.extend(_apply_padding(items, opt, 0))
        return
    if plain and not plus:
        render_arg(m, a, plus, out)
        return
    if 'Cow<' in t and isinstance(v, Agg) and v.name == 'Cow':
        v = deref(v.fields[0])
        t = 'BigUint'
    if t in ('num_bigint::BigInt', 'BigInt', 'num_bigint::BigUint', 'BigUint', '&num_bigint::BigInt', '&num_bigint::BigUint'):
        st = big_to_str_radix(m, None, [Ref([v], 0), 10], None, None)
        items = list(st.items)
        sign = ''
        if items and items[0] == 45:
            sign, items = '-', items[1:]
        elif plus:
            sign = '+'
        out.extend(_apply_padding(items, opt, 1, sign))
        return
    # a type of the crate with explicit options: its own fmt body sees them through the Formatter
    f = FmtV(precision=opt.get('precision'), plus=plus)
    f.pad = opt
    trait = 'std::fmt::Display' if a.kind == 'display' else 'std::fmt::Debug'
    m.call('<%s as %s>::fmt' % (t, trait), [a.ref, Ref([f], 0)], ['&' + t, '&mut Formatter'], 'Result<(), Error>')
    out.extend(f.out)


def render_template(m, a, out):
    """interpret the byte template of fmt::Arguments (layout documented in core/src/fmt/mod.rs of this nightly)"""
    t = a.template
    i = 0
    argi = 0
    while True:
        b = t[i]
        if b == 0:
            break
        if b < 0x80:
            out.extend(t[i + 1:i + 1 + b])
            i += 1 + b
        elif b == 0x80:
            n = t[i + 1] | (t[i + 2] << 8)
            out.extend(t[i + 3:i + 3 + n])
            i += 3 + n
        elif b >= 0xC0:
            opt = {}
            i += 1
            if b & 1:
                flags = int.from_bytes(t[i:i + 4], 'little')
                i += 4
                opt['fill'] = flags & 0x1FFFFF
                opt['plus'] = bool(flags & (1 << 21))
                opt['zero'] = bool(flags & (1 << 24))
                opt['alternate'] = bool(flags & (1 << 23))
                opt['align'] = (flags >> 29) & 3
            if b & 2:
                w = int.from_bytes(t[i:i + 2], 'little')
                i += 2
                if b & 16:
                    w = deref(a.args[w].ref)
                    if is_sym(w):
                        w = m.concretize(w)
                opt['width'] = w
            if b & 4:
                p = int.from_bytes(t[i:i + 2], 'little')
                i += 2
                if b & 32:
                    p = deref(a.args[p].ref)
                    if is_sym(p):
                        p = m.concretize(p)
                opt['precision'] = p
            if b & 8:
                argi = int.from_bytes(t[i:i + 2], 'little')
                i += 2
            render_arg_opts(m, a.args[argi], opt, out)
            argi += 1
        else:
            raise Unsupported('template byte %x' % b)


@summary(r"<(?:std::string::)?String as std::fmt::Write>::write_fmt")
def string_write_fmt(m, mt, args, tys, dty):
    s = deref(args[0])
    render_template(m, args[1], s.items)
    return mk_enum('Result', 'Ok', [Agg('tuple', '()', [])])


@summary(r"(?:std::fmt::|alloc::fmt::)?format")
def fmt_format(m, mt, args, tys, dty):
    out = []
    render_template(m, args[0], out)
    return StrV(out)


@summary(r"must_use::<.*>")
def hint_must_use(m, mt, args, tys, dty):
    return args[0]


@summary(r"core::fmt::rt::Argument::from_usize")
def fmt_arg_from_usize(m, mt, args, tys, dty):
    return ArgV('usize', 'usize', args[0])


@summary(r"Formatter::write_fmt")
def formatter_write_fmt(m, mt, args, tys, dty):
    f = deref(args[0])
    render_template(m, args[1], f.out)
    return mk_enum('Result', 'Ok', [Agg('tuple', '()', [])])


@summary(r"Formatter::write_str")
def formatter_write_str(m, mt, args, tys, dty):
    deref(args[0]).out.extend(str_items(args[1]))
    return mk_enum('Result', 'Ok', [Agg('tuple', '()', [])])


@summary(r"Formatter::(pad|write_char)")
def formatter_pad(m, mt, args, tys, dty):
    f = deref(args[0])
    v = args[1]
    items = list(str_items(v)) if mt.group(1) == 'pad' else [v if not isinstance(v, str) else ord(v)]
    f.out.extend(_apply_padding(items, getattr(f, 'pad', {}), 0) if mt.group(1) == 'pad' else items)
    return mk_enum('Result', 'Ok', [Agg('tuple', '()', [])])


@summary(r'core::slice::<impl \[u8\]>::copy_within::<(?:std::ops::)?Range(To)?<usize>>')
def slice_copy_within(m, mt, args, tys, dty):
    sl = as_slice(args[0])
    r = args[1]
    if mt.group(1):
        lo, hi = 0, m.concretize(r.fields[0])
    else:
        lo, hi = m.concretize(r.fields[0]), m.concretize(r.fields[1])
    dest = m.concretize(args[2])
    n = hi - lo
    if lo > hi or hi > len(sl) or dest + n > len(sl):
        raise Panic('IndexOOB', 'copy_within')
    chunk = [sl.get(i) for i in range(lo, hi)]
    for i, c in enumerate(chunk):
        sl.base[sl.lo + dest + i] = c
    return Agg('tuple', '()', [])


@summary(r'core::slice::<impl \[.*\]>::fill')
def slice_fill(m, mt, args, tys, dty):
    sl = as_slice(args[0])
    for i in range(len(sl)):
        sl.base[sl.lo + i] = args[1]
    return Agg('tuple', '()', [])


@summary(r'<std::vec::Vec<u8> as IndexMut<(?:std::ops::)?RangeTo<usize>>>::index_mut#')
def _unused3(m, mt, args, tys, dty):
    pass


@summary(r'<usize as Ord>::min|<usize as Ord>::max')
def usize_minmax(m, mt, args, tys, dty):
    x, y = args
    x, y = m.concretize(x), m.concretize(y)
    return min(x, y) if 'min' in mt.group(0) else max(x, y)


@summary(r'<std::string::String as Extend<char>>::extend::<.*>')
def string_extend(m, mt, args, tys, dty):
    s = deref(args[0])
    it = args[1]
    if isinstance(it, Agg) and it.name == 'Take':
        ch, n = it.fields
        n = m.concretize(n)
        if n > 100000:
            raise BoundExceeded('extend by %d' % n)
        s.items.extend([ch] * n)
        return Agg('tuple', '()', [])
    raise Unsupported('extend with %r' % (it,))


@summary(r'std::iter::repeat::<char>')
def iter_repeat(m, mt, args, tys, dty):
    return Agg('struct', 'Repeat', [args[0]])


@summary(r'<std::iter::Repeat<char> as Iterator>::take')
def repeat_take(m, mt, args, tys, dty):
    return Agg('struct', 'Take', [args[0].fields[0], args[1]])


@summary(r'core::slice::<impl \[.*\]>::iter_mut')
def slice_iter_mut(m, mt, args, tys, dty):
    return IterV(as_slice(args[0]))


@summary(r'<std::slice::IterMut<.*> as IntoIterator>::into_iter')
def itermut_into_iter(m, mt, args, tys, dty):
    return args[0]


@summary(r'<std::slice::Iter(?:Mut)?<.*> as Iterator>::next')
def slice_iter_next(m, mt, args, tys, dty):
    e = iter_next(deref(args[0]))
    return NONE() if e is None else some(e)


@summary(r'<(u8|char) as Clone>::clone')
def u8_clone(m, mt, args, tys, dty):
    return deref(args[0])


# ------------------------------------------------------------------ spike part (e): sqrt path (floats concrete, isqrt by contract)
import struct, math


@summary(r'#superseded-2814845461860968169')
def f64_to_bits(m, mt, args, tys, dty):
    return struct.unpack('<Q', struct.pack('<d', args[0]))[0]


@summary(r'#superseded-4146661920066772467')
def f64_classify(m, mt, args, tys, dty):
    x = args[0]
    if x != x:
        v = 'Nan'
    elif x in (float('inf'), float('-inf')):
        v = 'Infinite'
    elif x == 0:
        v = 'Zero'
    elif abs(x) < 2.2250738585072014e-308:
        v = 'Subnormal'
    else:
        v = 'Normal'
    return mk_enum('FpCategory', v)


_eng.ENUM_VARIANTS['FpCategory'] = ['Nan', 'Infinite', 'Zero', 'Subnormal', 'Normal']


@summary(r'<FpCategory as PartialEq>::eq')
def fpcat_eq(m, mt, args, tys, dty):
    return deref(args[0]).variant == deref(args[1]).variant


@summary(r'#superseded--7261861251979199026')
def f64_is_normal(m, mt, args, tys, dty):
    x = args[0]
    return x == x and x not in (float('inf'), float('-inf')) and abs(x) >= 2.2250738585072014e-308


@summary(r'core::num::<impl (%s)>::trailing_zeros' % INT)
def int_trailing_zeros(m, mt, args, tys, dty):
    x = m.concretize(args[0])
    bits = {'u8': 8, 'u16': 16, 'u32': 32, 'u64': 64, 'u128': 128, 'usize': 64}[mt.group(1)]
    if x == 0:
        return bits
    return (x & -x).bit_length() - 1


@summary(r'(?:num_bigint::)?BigUint::pow')
def biguint_pow(m, mt, args, tys, dty):
    base = deref(args[0])
    e = m.concretize(args[1])
    if is_sym(base):
        raise Unsupported('pow of symbolic base')
    return base ** e


@summary(r'<(%s) as From<bool>>::from' % INT)
def int_from_bool(m, mt, args, tys, dty):
    b = args[0]
    if isinstance(b, bool):
        return int(b)
    return 1 if m.branch_bool(b) else 0


@summary(r'Option::<.*>::zip::<.*>')
def option_zip(m, mt, args, tys, dty):
    a, b = args
    if a.variant == 'None' or b.variant == 'None':
        return NONE()
    return some(Agg('tuple', '()', [a.fields[0], b.fields[0]]))


@summary(r'core::num::<impl (%s)>::checked_(add|sub)#dup')
def _unused4(m, mt, args, tys, dty):
    pass


@summary(r'<%s as num_traits::ToPrimitive>::to_(%s)' % (BIG, INT))
def big_to_prim(m, mt, args, tys, dty):
    x = deref(args[0])
    lo, hi = INT_RANGE[mt.group(1)]
    ok = z3.And(x >= lo, x <= hi) if is_sym(x) else (lo <= x <= hi)
    if m.branch_bool(ok):
        return some(x)
    return NONE()


@summary(r'(?:num_bigint::)?BigUint::sqrt')
def biguint_sqrt(m, mt, args, tys, dty):
    N = deref(args[0])
    if not is_sym(N):
        return math.isqrt(N)
    # contract: r = isqrt(N);  linear consequences from the (concretised) digit count of N
    D = DIGIT_BOUND[0] * 3
    conds = [N == 0] + [z3.And(N >= 10 ** (d - 1), N < 10 ** d) for d in range(1, D + 1)] + [N >= 10 ** D]
    k = m.choose(conds)
    if k == D + 1:
        raise BoundExceeded('sqrt arg too large')
    if k == 0:
        return 0
    lo, hi = math.isqrt(10 ** (k - 1)), math.isqrt(10 ** k - 1)
    r = m.fresh('isqrt')
    m.assume(z3.And(r >= lo, r <= hi))
    exact = z3.Bool('isqrt_exact!%d' % m.fresh_n)
    m.trace.append(('sqrt', N, r, exact))
    return r


@summary(r'<BigDecimal as num_traits::One>::is_one')
def bd_is_one(m, mt, args, tys, dty):
    one = m.call('<BigDecimal as num_traits::One>::one', [], [], 'BigDecimal')
    return m.call('<BigDecimal as PartialEq>::eq', [args[0], Ref([one], 0)], ['&BigDecimal', '&BigDecimal'], 'bool')


@summary(r'<BigDecimal as PartialEq>::ne')
def bd_ne(m, mt, args, tys, dty):
    r = m.call('<BigDecimal as PartialEq>::eq', args, tys, 'bool')
    return (not r) if isinstance(r, bool) else z3.Not(r)


# ------------------------------------------------------------------ spike part (f): Hash

@summary(r'core::str::<impl str>::trim_right_matches::<.*>')
def str_trim_right_matches(m, mt, args, tys, dty):
    sl = str_slice(args[0])
    f = args[1]
    hi = sl.hi
    if isinstance(deref(f), int) or isinstance(deref(f), str):          # a char (or one-char str) pattern instead of a closure
        p = _pattern_codes(f)[0]
        while hi > sl.lo and char_eq(m, sl.base[hi - 1], p):
            hi -= 1
        return SliceV(sl.base, sl.lo, hi)
    holder = [f] if not isinstance(f, Ref) else None
    fref = f if isinstance(f, Ref) else Ref(holder, 0)
    while hi > sl.lo:
        c = sl.base[hi - 1]
        r = call_callable(m, fref, [c], 'bool')
        if not m.branch_bool(r):
            break
        hi -= 1
    return SliceV(sl.base, sl.lo, hi)


@summary(r'core::num::<impl (%s)>::abs' % INT)
def int_abs(m, mt, args, tys, dty):
    x = args[0]
    lo, hi = INT_RANGE[mt.group(1)]
    if m.branch_bool(x == lo):
        raise Panic('ArithOverflow', 'abs overflow')
    return zabs(x)


@summary(r'str::<impl str>::repeat')
def str_repeat(m, mt, args, tys, dty):
    it = str_items(args[0])
    n = m.concretize(args[1])
    if n > 100000:
        raise BoundExceeded('repeat %d' % n)
    return StrV(it * n)


@summary(r'<std::string::String as std::hash::Hash>::hash::<.*>')
def string_hash(m, mt, args, tys, dty):
    h = deref(args[1])
    # std: Hasher::write_str = write(bytes) followed by write_u8(0xff) = write(&[0xff])
    h.append(list(str_items(args[0])))
    h.append([0xff])
    return Agg('tuple', '()', [])


# ================================================================== additions for the /verif framework

UNIT = lambda: Agg('tuple', '()', [])


@summary(r'<num_bigint::Sign as std::ops::Neg>::neg')
def sign_neg(m, mt, args, tys, dty):
    v = deref(args[0]).variant
    return mk_enum('Sign', {'Minus': 'Plus', 'Plus': 'Minus', 'NoSign': 'NoSign'}[v])


@summary(r'<num_bigint::Sign as std::ops::Mul>::mul')
def sign_mul(m, mt, args, tys, dty):
    a, b = deref(args[0]).variant, deref(args[1]).variant
    if a == 'NoSign' or b == 'NoSign':
        return mk_enum('Sign', 'NoSign')
    return mk_enum('Sign', 'Plus' if a == b else 'Minus')


@summary(r'<num_bigint::Sign as Clone>::clone')
def sign_clone(m, mt, args, tys, dty):
    return deref(args[0])


@summary(r'<(%s) as Ord>::(max|min)' % INT)
def int_ord_maxmin(m, mt, args, tys, dty):
    x, y = deref(args[0]), deref(args[1])
    if not is_sym(x) and not is_sym(y):
        return max(x, y) if mt.group(2) == 'max' else min(x, y)
    if mt.group(2) == 'max':
        return z3.If(x >= y, x, y)
    return z3.If(x <= y, x, y)


@summary(r'<&(.+) as (PartialEq|PartialOrd|Ord)(<&(.+)>)?>::(eq|ne|lt|le|gt|ge|cmp|partial_cmp)')
def ref_cmp_forward(m, mt, args, tys, dty):
    """impl<A: PartialEq<B>> PartialEq<&B> for &A  (core): forwards through one level of reference"""
    a_ty, trait, b_ty, method = mt.group(1), mt.group(2), mt.group(4) or mt.group(1), mt.group(5)
    if trait == 'PartialEq' or mt.group(3):
        path = '<%s as %s<%s>>::%s' % (a_ty, trait, b_ty, method) if b_ty != a_ty else '<%s as %s>::%s' % (a_ty, trait, method)
    else:
        path = '<%s as %s>::%s' % (a_ty, trait, method)
    return m.call(path, [args[0].get(), args[1].get()], ['&' + a_ty, '&' + b_ty], dty)


# ------------------------------------------------------------------ iterator protocol (dispatch on the runtime value)

class CopiedV:
    def __init__(self, inner):
        self.inner = inner


class TakeWhileV:
    def __init__(self, inner, f):
        self.inner, self.f, self.done = inner, f, False


class ZipV:
    def __init__(self, a, b):
        self.a, self.b = a, b


class ListIterV:
    """by-value iterator over python list of values (Vec::into_iter, arrays, harness-made iterators)"""
    def __init__(self, items):
        self.items, self.pos = list(items), 0


class RangeFromV:
    def __init__(self, start, ty):
        self.cur, self.ty = start, ty


def it_next(m, it):
    """-> element or None"""
    it = deref(it)
    if isinstance(it, IterV):
        return iter_next(it)
    if isinstance(it, CopiedV):
        e = it_next(m, it.inner)
        return None if e is None else deref(e)
    if isinstance(it, ListIterV):
        if it.pos >= len(it.items):
            return None
        it.pos += 1
        return it.items[it.pos - 1]
    if isinstance(it, ZipV):
        a = it_next(m, it.a)
        if a is None:
            return None
        b = it_next(m, it.b)
        if b is None:
            return None
        return Agg('tuple', '()', [a, b])
    if isinstance(it, TakeWhileV):
        if it.done:
            return None
        e = it_next(m, it.inner)
        if e is None:
            return None
        r = call_callable(m, Ref([it.f], 0), [Ref([e], 0)], 'bool')
        if m.branch_bool(r):
            return e
        it.done = True
        return None
    if isinstance(it, U32Digits):
        if it.pos >= len(it.words):
            return None
        it.pos += 1
        return it.words[it.pos - 1]
    if isinstance(it, RangeFromV):
        v = it.cur
        it.cur = v + 1
        return v
    if isinstance(it, Agg) and it.name == 'Range':
        start, end = it.fields
        if m.branch_bool(start < end):
            it.fields[0] = start + 1
            return start
        return None
    raise Unsupported('it_next on %r' % (it,))


@summary(r'<.* as Iterator>::next')
def generic_iter_next(m, mt, args, tys, dty):
    e = it_next(m, args[0])
    return NONE() if e is None else some(e)


@summary(r'<.* as IntoIterator>::into_iter')
def generic_into_iter(m, mt, args, tys, dty):
    v = args[0]
    if isinstance(v, VecV):
        return ListIterV(v.items)
    if isinstance(v, list):
        return ListIterV(v)
    if isinstance(v, Ref) and isinstance(deref(v), VecV):
        return IterV(as_slice(v))
    return v


@summary(r'<.* as Iterator>::copied::<.*>')
def iter_copied(m, mt, args, tys, dty):
    return CopiedV(args[0])


@summary(r'<.* as Iterator>::take_while::<.*>')
def iter_take_while(m, mt, args, tys, dty):
    return TakeWhileV(args[0], args[1])


@summary(r'<.* as Iterator>::zip::<.*>')
def iter_zip(m, mt, args, tys, dty):
    return ZipV(args[0], args[1])


@summary(r'<.* as Iterator>::count')
def iter_count(m, mt, args, tys, dty):
    n = 0
    while it_next(m, args[0]) is not None:
        n += 1
    return n


@summary(r'<.* as Iterator>::(all|any)::<.*>')
def generic_iter_all(m, mt, args, tys, dty):
    it, f = args
    is_all = mt.group(1) == 'all'
    holder = [f]
    if isinstance(deref(f), FnItem):
        # a function item is a pure predicate: fold it over the remaining elements into ONE condition (no fork per element)
        conds = []
        while True:
            e = it_next(m, it)
            if e is None:
                break
            conds.append(call_callable(m, Ref(holder, 0), [e], 'bool'))
        if any(c is False for c in conds) and is_all:
            return False
        if any(c is True for c in conds) and not is_all:
            return True
        sym = [c for c in conds if is_sym(c)]
        if not sym:
            return is_all
        return z3.And(sym) if is_all else z3.Or(sym)
    while True:
        e = it_next(m, it)
        if e is None:
            return is_all
        r = call_callable(m, Ref(holder, 0), [e], 'bool')
        b = m.branch_bool(r)
        if is_all and not b:
            return False
        if not is_all and b:
            return True


@summary(r'<.* as Iterator>::position::<.*>')
def iter_position(m, mt, args, tys, dty):
    it, f = args
    holder = [f]
    i = 0
    while True:
        e = it_next(m, it)
        if e is None:
            return NONE()
        r = call_callable(m, Ref(holder, 0), [e], 'bool')
        if m.branch_bool(r):
            return some(i)
        i += 1


@summary(r'<.* as Iterator>::fold::<.*>')
def iter_fold(m, mt, args, tys, dty):
    it, acc, f = args
    holder = [f]
    while True:
        e = it_next(m, it)
        if e is None:
            return acc
        acc = call_callable(m, Ref(holder, 0), [acc, e], dty)


@summary(r'<std::ops::RangeFrom<(%s)> as IntoIterator>::into_iter#' % INT)
def _unused_rangefrom(m, mt, args, tys, dty):
    pass


@summary(r'<std::vec::Vec<.*> as Extend<.*>>::extend::<.*>')
def vec_extend(m, mt, args, tys, dty):
    v = deref(args[0])
    while True:
        e = it_next(m, args[1])
        if e is None:
            return UNIT()
        v.items.append(deref(e) if isinstance(e, Ref) else e)


@summary(r'num_integer::div_rem::<(%s)>' % INT)
def free_div_rem(m, mt, args, tys, dty):
    x, y = args
    if m.branch_bool(y == 0):
        raise Panic('DivByZero', 'div_rem by zero')
    q, r = m.tdivrem(x, y)
    return Agg('tuple', '()', [q, r])


# ------------------------------------------------------------------ comparison support (C02)

@summary(r'<&?%s as Ord>::cmp' % BIG)
def big_ord_cmp(m, mt, args, tys, dty):
    x, y = deref(args[0]), deref(args[1])
    if not is_sym(x) and not is_sym(y):
        return ordering((x > y) - (x < y))
    k = m.choose([x < y, x == y, x > y])
    return ordering(k - 1)


@summary(r'<num_bigint::Sign as Ord>::cmp')
def sign_ord_cmp(m, mt, args, tys, dty):
    order = {'Minus': 0, 'NoSign': 1, 'Plus': 2}
    a, b = order[deref(args[0]).variant], order[deref(args[1]).variant]
    return ordering((a > b) - (a < b))


@summary(r'<std::cmp::Ordering as PartialEq>::(eq|ne)')
def ordering_eq(m, mt, args, tys, dty):
    r = deref(args[0]).variant == deref(args[1]).variant
    return r if mt.group(1) == 'eq' else not r


@summary(r'std::cmp::Ordering::reverse')
def ordering_reverse(m, mt, args, tys, dty):
    return mk_enum('Ordering', {'Less': 'Greater', 'Greater': 'Less', 'Equal': 'Equal'}[deref(args[0]).variant])


@summary(r'<(%s) as (?:num_traits::)?NumCast>::from::<(%s)>' % (INT, INT))
def numcast_from(m, mt, args, tys, dty):
    x = args[0]
    lo, hi = INT_RANGE[mt.group(1)]
    ok = z3.And(x >= lo, x <= hi) if is_sym(x) else (lo <= x <= hi)
    return some(x) if m.branch_bool(ok) else NONE()


@summary(r'<(%s) as (?:std::convert::)?TryFrom<&%s>>::try_from' % (INT, BIG))
def prim_try_from_big(m, mt, args, tys, dty):
    x = deref(args[0])
    lo, hi = INT_RANGE[mt.group(1)]
    ok = z3.And(x >= lo, x <= hi) if is_sym(x) else (lo <= x <= hi)
    if m.branch_bool(ok):
        return mk_enum('Result', 'Ok', [x])
    return mk_enum('Result', 'Err', [Agg('struct', 'TryFromBigIntError', [])])


@summary(r'Result::<.*>::ok')
def result_ok(m, mt, args, tys, dty):
    r = args[0]
    return some(r.fields[0]) if r.variant == 'Ok' else NONE()


@summary(r'(?:num_traits::)?checked_pow::<(%s)>' % INT)
def free_checked_pow(m, mt, args, tys, dty):
    base, e = args
    e = m.concretize(e)
    if is_sym(base):
        raise Unsupported('checked_pow symbolic base')
    if e > 100000:
        return NONE()
    v = base ** e
    lo, hi = INT_RANGE[mt.group(1)]
    return some(v) if lo <= v <= hi else NONE()


@summary(r'<(%s) as (?:num_traits::)?Checked(Add|Sub|Mul)>::checked_(add|sub|mul)' % INT)
def trait_checked_arith(m, mt, args, tys, dty):
    x, y = deref(args[0]), deref(args[1])
    lo, hi = INT_RANGE[mt.group(1)]
    v = {'add': x + y, 'sub': x - y, 'mul': x * y}[mt.group(3)]
    ok = z3.And(v >= lo, v <= hi) if is_sym(v) else (lo <= v <= hi)
    return some(v) if m.branch_bool(ok) else NONE()


@summary(r'Option::<.*>::or_else::<.*>')
def option_or_else(m, mt, args, tys, dty):
    opt, f = args
    if opt.variant == 'Some':
        return opt
    return call_callable(m, f, [], dty)


@summary(r'<Option<.*> as Try>::branch')
def option_branch(m, mt, args, tys, dty):
    o = args[0]
    if o.variant == 'Some':
        return Agg('enum', 'ControlFlow', [o.fields[0]], 'Continue')
    return Agg('enum', 'ControlFlow', [NONE()], 'Break')


@summary(r'<Option<.*> as FromResidual<Option<Infallible>>>::from_residual')
def option_from_residual(m, mt, args, tys, dty):
    return NONE()


@summary(r'core::slice::<impl \[.*\]>::split_at')
def slice_split_at(m, mt, args, tys, dty):
    sl = as_slice(args[0])
    i = m.concretize(args[1])
    if i > len(sl):
        raise Panic('IndexOOB', 'slice split_at')
    return Agg('tuple', '()', [SliceV(sl.base, sl.lo, sl.lo + i), SliceV(sl.base, sl.lo + i, sl.hi)])


@summary(r'core::slice::<impl \[.*\]>::len')
def slice_len(m, mt, args, tys, dty):
    return len(as_slice(args[0]))


@summary(r'<(%s|bool|char) as Partial(Eq|Ord)>::(eq|ne|lt|le|gt|ge)' % INT)
def prim_cmp_ops(m, mt, args, tys, dty):
    x, y = deref(args[0]), deref(args[1])
    op = mt.group(3)
    return {'eq': x == y, 'ne': x != y, 'lt': x < y, 'le': x <= y, 'gt': x > y, 'ge': x >= y}[op]


@summary(r'(std::rt::begin_panic::<.*>|core::panicking::panic|core::panicking::panic_fmt|std::rt::panic_fmt|core::panicking::panic_display::<.*>|core::panicking::unreachable_display::<.*>|core::panicking::panic_explicit|core::option::expect_failed|core::result::unwrap_failed|core::option::unwrap_failed|core::panicking::assert_failed::<.*>)')
def explicit_panic(m, mt, args, tys, dty):
    msg = ''
    if args:
        try:
            v = deref(args[0])
            msg = v if isinstance(v, str) else show(str_items(v))
        except Exception:
            msg = ''
    raise Panic('Explicit', '%s: %s' % (mt.group(1).split('::<')[0], msg))


# ------------------------------------------------------------------ floats: concrete python floats, or FloatV = symbolic IEEE bit pattern

FLOAT_FMT = {'f32': (8, 23, '<f', '<I'), 'f64': (11, 52, '<d', '<Q')}


class FloatV:
    """symbolic float: bits = sign*2^(e+m) + exp*2^m + frac ; sign/exp/frac are python ints or z3 Int terms"""
    def __init__(self, ty, sign, exp, frac):
        self.ty, self.sign, self.exp, self.frac = ty, sign, exp, frac

    def bits(self):
        e, mbits = FLOAT_FMT[self.ty][:2]
        return self.sign * 2 ** (e + mbits) + self.exp * 2 ** mbits + self.frac

    def __repr__(self):
        return 'Float<%s s=%s e=%s f=%s>' % (self.ty, self.sign, self.exp, self.frac)


def float_bits(ty, v):
    if isinstance(v, FloatV):
        return v.bits()
    fmt = FLOAT_FMT[ty]
    return struct.unpack(fmt[3], struct.pack(fmt[2], v))[0]


def float_parts(ty, v):
    if isinstance(v, FloatV):
        return v.sign, v.exp, v.frac
    e, mbits = FLOAT_FMT[ty][:2]
    b = float_bits(ty, v)
    return b >> (e + mbits), (b >> mbits) & (2 ** e - 1), b & (2 ** mbits - 1)


def float_category(m, ty, v):
    sign, exp, frac = float_parts(ty, v)
    e = FLOAT_FMT[ty][0]
    if is_sym(exp):
        exp = m.concretize(exp)
    if exp == 2 ** e - 1:
        return 'Infinite' if m.branch_bool(frac == 0) else 'Nan'
    if exp == 0:
        return 'Zero' if m.branch_bool(frac == 0) else 'Subnormal'
    return 'Normal'


@summary(r'core::(f32|f64)::<impl (?:f32|f64)>::to_bits')
def float_to_bits(m, mt, args, tys, dty):
    return float_bits(mt.group(1), deref(args[0]))


@summary(r'core::(f32|f64)::<impl (?:f32|f64)>::from_bits')
def float_from_bits(m, mt, args, tys, dty):
    ty = mt.group(1)
    b = args[0]
    if is_sym(b):
        raise Unsupported('from_bits of symbolic bits')
    fmt = FLOAT_FMT[ty]
    return struct.unpack(fmt[2], struct.pack(fmt[3], b))[0]


@summary(r'core::(f32|f64)::<impl (?:f32|f64)>::classify')
def float_classify(m, mt, args, tys, dty):
    return mk_enum('FpCategory', float_category(m, mt.group(1), deref(args[0])))


@summary(r'core::(f32|f64)::<impl (?:f32|f64)>::is_(normal|finite|nan|infinite|sign_negative|sign_positive)')
def float_is(m, mt, args, tys, dty):
    ty, what = mt.group(1), mt.group(2)
    v = deref(args[0])
    if what in ('sign_negative', 'sign_positive'):
        s = float_parts(ty, v)[0]
        return (s == 1) if what == 'sign_negative' else (s == 0)
    c = float_category(m, ty, v)
    return {'normal': c == 'Normal', 'finite': c not in ('Nan', 'Infinite'), 'nan': c == 'Nan', 'infinite': c == 'Infinite'}[what]


@summary(r'<(f32|f64) as num_traits::One>::is_one')
def float_is_one(m, mt, args, tys, dty):
    return float_eq(m, mt.group(1), deref(args[0]), 1.0)


@summary(r'<(f32|f64) as num_traits::Zero>::is_zero')
def float_is_zero(m, mt, args, tys, dty):
    return float_eq(m, mt.group(1), deref(args[0]), 0.0)


@summary(r'<(f32|f64) as std::ops::Neg>::neg')
def float_neg(m, mt, args, tys, dty):
    v = args[0]
    if isinstance(v, FloatV):
        return FloatV(v.ty, 1 - v.sign, v.exp, v.frac)
    return -v


@summary(r'<(f32|f64) as Clone>::clone')
def float_clone(m, mt, args, tys, dty):
    return deref(args[0])


def float_eq(m, ty, a, b):
    """IEEE == between a (possibly FloatV) and b (concrete float)"""
    if not isinstance(a, FloatV) and not isinstance(b, FloatV):
        return a == b
    if isinstance(b, FloatV) and not isinstance(a, FloatV):
        a, b = b, a
    if isinstance(b, FloatV):
        raise Unsupported('comparison of two symbolic floats')
    if b != b:
        return False
    bs, be, bf = float_parts(ty, b)
    if b == 0.0:
        return z3.And(a.exp == 0, a.frac == 0) if (is_sym(a.exp) or is_sym(a.frac)) else (a.exp == 0 and a.frac == 0)
    conds = [a.sign == bs, a.exp == be, a.frac == bf]
    if any(c is False for c in conds):
        return False
    sym = [c for c in conds if is_sym(c)]
    return z3.And(sym) if sym else True


@summary(r'(?:num_bigint::)?BigUint::from_slice')
def biguint_from_slice(m, mt, args, tys, dty):
    v = deref(args[0])
    items = v if isinstance(v, list) else [as_slice(v).get(i) for i in range(len(as_slice(v)))]
    return sum(w * 2 ** (32 * i) for i, w in enumerate(items))


@summary(r'core::num::<impl (%s)>::trailing_zeros#float-aware' % INT)
def _unused_tz(m, mt, args, tys, dty):
    pass


def trailing_zeros_fork(m, x, bits):
    """number of trailing zero bits of a (possibly symbolic) non-negative integer, by forking on the count"""
    if not is_sym(x):
        return bits if x == 0 else (x & -x).bit_length() - 1
    ts = [m.fresh('tzq') for _ in range(bits)]
    k = m.choose_n(bits + 1, lambda k: (x == 0) if k == bits else z3.And(x == (2 * ts[k] + 1) * 2 ** k, ts[k] >= 0))
    return k


for _i, (_n, _rx, _fn) in enumerate(SUMMARIES):
    if _n == 'int_trailing_zeros':
        def _tz(m, mt, args, tys, dty):
            ty = mt.group(1)
            bits = {'u8': 8, 'u16': 16, 'u32': 32, 'u64': 64, 'u128': 128, 'usize': 64, 'i8': 8, 'i16': 16, 'i32': 32, 'i64': 64, 'i128': 128, 'isize': 64}[ty]
            x = args[0]
            if ty.startswith('i'):
                # two's complement: the trailing zeros of a negative value are those of its magnitude (MIN = 2^(bits-1))
                x = zabs(x)
            return trailing_zeros_fork(m, x, bits)
        SUMMARIES[_i] = (_n, _rx, _tz)



@summary(r'<(?:std::string::)?String as std::fmt::Write>::write_str')
def string_write_str(m, mt, args, tys, dty):
    deref(args[0]).items.extend(str_items(args[1]))
    return mk_enum('Result', 'Ok', [UNIT()])


@summary(r'<(?:std::string::)?String as std::fmt::Write>::write_char')
def string_write_char(m, mt, args, tys, dty):
    c = args[1]
    deref(args[0]).items.append(ord(c) if isinstance(c, str) else c)
    return mk_enum('Result', 'Ok', [UNIT()])


@summary(r'Result::<.*>::expect')
def result_expect(m, mt, args, tys, dty):
    r = args[0]
    if r.variant == 'Err':
        raise Panic('ExpectErr', 'expect on Err')
    return r.fields[0]


@summary(r'<(?:num_bigint::)?Big(?:Int|Uint) as std::string::ToString>::to_string')
def big_to_string(m, mt, args, tys, dty):
    return big_to_str_radix(m, None, [args[0], 10], tys, dty)


@summary(r'core::num::<impl (%s)>::rem_euclid' % INT)
def int_rem_euclid(m, mt, args, tys, dty):
    x, y = args
    if is_sym(y):
        raise Unsupported('rem_euclid by a symbolic modulus')
    if not is_sym(x):
        return x % abs(y)
    q, r = m.fresh('eq'), m.fresh('er')
    m.assume(z3.And(x == q * abs(y) + r, r >= 0, r < abs(y)))
    return r


@summary(r'<str as Index<(?:std::ops::)?RangeTo<usize>>>::index#dup')
def _unused_idx(m, mt, args, tys, dty):
    pass


def _pattern_codes(pat):
    pat = deref(pat)
    if isinstance(pat, str):
        return [ord(c) for c in pat] if len(pat) == 1 else None
    if isinstance(pat, int):
        return [pat]
    if isinstance(pat, (list, SliceV)):
        items = pat if isinstance(pat, list) else pat.base[pat.lo:pat.hi]
        return [ord(p) if isinstance(p, str) else p for p in items]
    return None


@summary(r'core::str::<impl str>::(starts_with|ends_with)::<(char|&\[char\]|\[char; \d+\])>')
def str_starts_with_char(m, mt, args, tys, dty):
    it = str_items(args[0])
    pats = _pattern_codes(args[1])
    if pats is None:
        raise Unsupported('starts_with pattern')
    if not it:
        return False
    c = it[0] if mt.group(1) == 'starts_with' else it[-1]
    for p in pats:
        r = char_eq(m, c, p)
        if r is None:
            raise Unsupported('starts_with on an integer rendering')
        if r:
            return True
    return False


@summary(r'core::str::<impl str>::contains::<(char|&\[char\])>')
def str_contains_char(m, mt, args, tys, dty):
    it = str_items(args[0])
    pats = _pattern_codes(args[1])
    for c in it:
        for p in pats:
            r = char_eq(m, c, p)
            if r is None:
                raise Unsupported('contains on an integer rendering')
            if r:
                return True
    return False


@summary(r'core::str::<impl str>::(as_bytes|bytes)')
def str_as_bytes(m, mt, args, tys, dty):
    sl = str_slice(args[0])
    return sl if mt.group(1) == 'as_bytes' else IterV(sl)


@summary(r'core::str::<impl str>::(trim_start_matches|trim_end_matches)::<char>')
def str_trim_matches_char(m, mt, args, tys, dty):
    sl = str_slice(args[0])
    p = _pattern_codes(args[1])[0]
    lo, hi = sl.lo, sl.hi
    if mt.group(1) == 'trim_start_matches':
        while lo < hi and char_eq(m, sl.base[lo], p):
            lo += 1
    else:
        while hi > lo and char_eq(m, sl.base[hi - 1], p):
            hi -= 1
    return SliceV(sl.base, lo, hi)



# Formatter option getters: harness-provided values (symbolic where the harness wants to show independence from them)
def _fmt_opt(name, default):
    def fn(m, mt, args, tys, dty):
        f = deref(args[0])
        v = getattr(f, 'opts', {}).get(name, default)
        return v() if callable(v) else v
    fn.__name__ = 'fmt_' + name
    return fn


summary(r'Formatter::width')(_fmt_opt('width', NONE))
summary(r'Formatter::fill')(_fmt_opt('fill', 32))
summary(r'Formatter::align')(_fmt_opt('align', NONE))
summary(r'Formatter::sign_plus')(_fmt_opt('sign_plus', False))
summary(r'Formatter::sign_minus')(_fmt_opt('sign_minus', False))
summary(r'Formatter::alternate')(_fmt_opt('alternate', False))
summary(r'Formatter::sign_aware_zero_pad')(_fmt_opt('sign_aware_zero_pad', False))



@summary(r'<impl FnOnce\(.*\) -> .* as FnOnce<\(.*\)>>::call_once')
def impl_fnonce_call(m, mt, args, tys, dty):
    clo, tup = args
    return call_callable(m, clo, list(tup.fields), dty)


# ================================================================== broad std coverage (so that refactorings using other std APIs stay executable)

def _range_bounds(m, r, n, kind):
    """-> (lo, hi) python ints for a Range* value over a sequence of length n"""
    c = lambda v: m.concretize(v) if is_sym(v) else v
    if kind in (None, ''):
        return c(r.fields[0]), c(r.fields[1])
    if kind == 'From':
        return c(r.fields[0]), n
    if kind == 'To':
        return 0, c(r.fields[0])
    if kind == 'Full':
        return 0, n
    if kind == 'Inclusive':
        return c(r.fields[0]), c(r.fields[1]) + 1
    if kind == 'ToInclusive':
        return 0, c(r.fields[0]) + 1
    raise Unsupported('range kind ' + str(kind))


_RANGE_RX = r'(?:std::ops::|core::ops::)?Range(From|To|Full|Inclusive|ToInclusive)?(?:<usize>)?'


@summary(r'core::str::<impl str>::get::<%s>' % _RANGE_RX)
def str_get_range(m, mt, args, tys, dty):
    sl = str_slice(args[0])
    lo, hi = _range_bounds(m, args[1], len(sl), mt.group(1))
    if lo > hi or hi > len(sl):
        return NONE()
    if _utf8_continuation(sl, lo) or _utf8_continuation(sl, hi):
        return NONE()
    return some(SliceV(sl.base, sl.lo + lo, sl.lo + hi))


@summary(r'core::slice::<impl \[.*\]>::get::<%s>' % _RANGE_RX)
def slice_get_range(m, mt, args, tys, dty):
    sl = as_slice(args[0])
    lo, hi = _range_bounds(m, args[1], len(sl), mt.group(1))
    if lo > hi or hi > len(sl):
        return NONE()
    return some(SliceV(sl.base, sl.lo + lo, sl.lo + hi))


@summary(r'core::slice::<impl \[.*\]>::get(_mut)?::<usize>')
def slice_get_idx(m, mt, args, tys, dty):
    sl = as_slice(args[0])
    i = m.concretize(args[1])
    if i < 0 or i >= len(sl):
        return NONE()
    return some(sl.ref(i))


@summary(r'<(?:str|std::string::String) as Index(?:Mut)?<%s>>::index(?:_mut)?' % _RANGE_RX)
def str_index_any_range(m, mt, args, tys, dty):
    sl = str_slice(args[0])
    lo, hi = _range_bounds(m, args[1], len(sl), mt.group(1))
    if lo > hi or hi > len(sl):
        raise Panic('IndexOOB', 'str range %d..%d len %d' % (lo, hi, len(sl)))
    return SliceV(sl.base, sl.lo + lo, sl.lo + hi)


@summary(r'<(?:\[.*\]|std::vec::Vec<.*>|\[.*; \d+\]) as Index(?:Mut)?<%s>>::index(?:_mut)?' % _RANGE_RX)
def slice_index_any_range(m, mt, args, tys, dty):
    v = deref(args[0])
    sl = as_slice(v) if not isinstance(v, list) else SliceV(v, 0, len(v))
    lo, hi = _range_bounds(m, args[1], len(sl), mt.group(1))
    if lo > hi or hi > len(sl):
        raise Panic('IndexOOB', 'slice range %d..%d len %d' % (lo, hi, len(sl)))
    return SliceV(sl.base, sl.lo + lo, sl.lo + hi)


@summary(r'<(?:\[.*\]|\[.*; \d+\]) as Index(?:Mut)?<usize>>::index(?:_mut)?')
def slice_index_usize(m, mt, args, tys, dty):
    v = deref(args[0])
    sl = as_slice(v) if not isinstance(v, list) else SliceV(v, 0, len(v))
    i = m.concretize(args[1])
    if i < 0 or i >= len(sl):
        raise Panic('IndexOOB', 'index %d len %d' % (i, len(sl)))
    return sl.ref(i)


@summary(r'core::slice::<impl \[.*\]>::(first|last)(_mut)?')
def slice_first_last(m, mt, args, tys, dty):
    sl = as_slice(args[0])
    if len(sl) == 0:
        return NONE()
    return some(sl.ref(0 if mt.group(1) == 'first' else len(sl) - 1))


@summary(r'core::slice::<impl \[.*\]>::is_empty|std::vec::Vec::<.*>::is_empty')
def slice_is_empty(m, mt, args, tys, dty):
    return len(as_slice(args[0])) == 0


@summary(r'core::slice::<impl \[.*\]>::(to_vec|to_owned)|<\[.*\] as ToOwned>::to_owned|<std::vec::Vec<.*> as Clone>::clone')
def slice_to_vec(m, mt, args, tys, dty):
    sl = as_slice(args[0])
    return VecV([copy_val(sl.get(i)) for i in range(len(sl))])


@summary(r'core::slice::<impl \[.*\]>::reverse')
def slice_reverse(m, mt, args, tys, dty):
    sl = as_slice(args[0])
    vals = [sl.get(i) for i in range(len(sl))][::-1]
    for i, v in enumerate(vals):
        sl.base[sl.lo + i] = v
    return UNIT()


@summary(r'core::slice::<impl \[.*\]>::swap')
def slice_swap(m, mt, args, tys, dty):
    sl = as_slice(args[0])
    i, j = m.concretize(args[1]), m.concretize(args[2])
    if max(i, j) >= len(sl):
        raise Panic('IndexOOB', 'swap')
    sl.base[sl.lo + i], sl.base[sl.lo + j] = sl.base[sl.lo + j], sl.base[sl.lo + i]
    return UNIT()


@summary(r'core::slice::<impl \[.*\]>::(starts_with|ends_with)')
def slice_starts_with(m, mt, args, tys, dty):
    a, b = as_slice(args[0]), as_slice(args[1])
    if len(b) > len(a):
        return False
    off = 0 if mt.group(1) == 'starts_with' else len(a) - len(b)
    conds = []
    for i in range(len(b)):
        x, y = a.get(off + i), b.get(i)
        if not is_sym(x) and not is_sym(y):
            if x != y:
                return False
        else:
            conds.append(x == y)
    return z3.And(conds) if conds else True


@summary(r'core::slice::<impl \[.*\]>::contains')
def slice_contains(m, mt, args, tys, dty):
    a = as_slice(args[0])
    x = deref(args[1])
    conds = []
    for i in range(len(a)):
        y = a.get(i)
        if not is_sym(x) and not is_sym(y):
            if x == y:
                return True
        else:
            conds.append(x == y)
    return z3.Or(conds) if conds else False


@summary(r'std::vec::Vec::<.*>::(new|with_capacity)')
def vec_new(m, mt, args, tys, dty):
    return VecV([])


@summary(r'std::vec::Vec::<.*>::(reserve|reserve_exact|shrink_to_fit)|std::string::String::(reserve_exact|shrink_to_fit)')
def vec_reserve(m, mt, args, tys, dty):
    return UNIT()


@summary(r'std::vec::Vec::<.*>::pop')
def vec_pop(m, mt, args, tys, dty):
    v = deref(args[0])
    if not v.items:
        return NONE()
    return some(v.items.pop())


@summary(r'std::vec::Vec::<.*>::remove')
def vec_remove(m, mt, args, tys, dty):
    v = deref(args[0])
    i = m.concretize(args[1])
    if i >= len(v.items):
        raise Panic('IndexOOB', 'Vec::remove')
    return v.items.pop(i)


@summary(r'std::vec::Vec::<.*>::insert')
def vec_insert_any(m, mt, args, tys, dty):
    v = deref(args[0])
    i = m.concretize(args[1])
    if i > len(v.items):
        raise Panic('IndexOOB', 'Vec::insert')
    v.items.insert(i, args[2])
    return UNIT()


@summary(r'std::vec::Vec::<.*>::resize')
def vec_resize_any(m, mt, args, tys, dty):
    v = deref(args[0])
    n = m.concretize(args[1])
    if n > 200000:
        raise BoundExceeded('resize to %d' % n)
    if n <= len(v.items):
        del v.items[n:]
    else:
        v.items.extend([args[2]] * (n - len(v.items)))
    return UNIT()


@summary(r'std::vec::Vec::<.*>::clear')
def vec_clear_any(m, mt, args, tys, dty):
    deref(args[0]).items[:] = []
    return UNIT()


@summary(r'std::vec::Vec::<.*>::extend_from_slice')
def vec_extend_from_slice(m, mt, args, tys, dty):
    v = deref(args[0])
    sl = as_slice(args[1])
    v.items.extend(sl.get(i) for i in range(len(sl)))
    return UNIT()


@summary(r'std::vec::Vec::<.*>::(as_mut_slice|as_slice)|<std::vec::Vec<.*> as (?:AsRef|AsMut|Borrow)<\[.*\]>>::(?:as_ref|as_mut|borrow)')
def vec_as_mut_slice(m, mt, args, tys, dty):
    return as_slice(args[0])


@summary(r'std::vec::from_elem::<.*>')
def vec_from_elem(m, mt, args, tys, dty):
    n = m.concretize(args[1])
    if n > 200000:
        raise BoundExceeded('vec![x; %d]' % n)
    return VecV([copy_val(args[0]) for _ in range(n)])


@summary(r'std::string::String::(with_capacity)')
def string_with_capacity(m, mt, args, tys, dty):
    return StrV()


@summary(r'std::string::String::push')
def string_push(m, mt, args, tys, dty):
    c = deref(args[1])
    deref(args[0]).items.append(ord(c) if isinstance(c, str) else c)
    return UNIT()


@summary(r'std::string::String::insert_str')
def string_insert_str(m, mt, args, tys, dty):
    s = deref(args[0])
    i = m.concretize(args[1])
    if i > len(s.items):
        raise Panic('IndexOOB', 'insert_str')
    s.items[i:i] = list(str_items(args[2]))
    return UNIT()


@summary(r'std::string::String::(truncate)')
def string_truncate(m, mt, args, tys, dty):
    s = deref(args[0])
    n = m.concretize(args[1])
    del s.items[n:]
    return UNIT()


@summary(r'std::string::String::(clear)')
def string_clear(m, mt, args, tys, dty):
    deref(args[0]).items[:] = []
    return UNIT()


@summary(r'std::string::String::pop')
def string_pop(m, mt, args, tys, dty):
    s = deref(args[0])
    if not s.items:
        return NONE()
    return some(s.items.pop())


@summary(r'<std::string::String as Clone>::clone|<str as ToOwned>::to_owned|core::str::<impl str>::(to_owned|to_string)|<std::string::String as std::string::ToString>::to_string|<std::string::String as From<std::string::String>>::from|<std::string::String as From<&std::string::String>>::from')
def string_clone(m, mt, args, tys, dty):
    return StrV(list(str_items(args[0])))


@summary(r'<std::string::String as (?:AsRef|Borrow)<str>>::(?:as_ref|borrow)|<std::string::String as DerefMut>::deref_mut|std::string::String::as_mut_str')
def string_as_ref(m, mt, args, tys, dty):
    return str_slice(args[0])


@summary(r'std::string::String::from_utf8_unchecked|std::string::String::from_utf8_lossy|core::str::from_utf8_unchecked|from_utf8_unchecked')
def string_from_utf8_unchecked(m, mt, args, tys, dty):
    v = deref(args[0])
    return StrV(list(v.items)) if isinstance(v, VecV) else str_slice(v)


@summary(r'(?:core::str::(?:converts::)?)?from_utf8')
def str_from_utf8(m, mt, args, tys, dty):
    # contract: the harness only supplies valid UTF-8 (bytes are treated as characters)
    return mk_enum('Result', 'Ok', [as_slice(args[0])])


@summary(r'std::string::String::(as_bytes)|std::string::String::as_mut_vec')
def string_as_bytes(m, mt, args, tys, dty):
    return str_slice(args[0])


@summary(r'core::str::<impl str>::(find|rfind)::<&str>')
def str_find_str(m, mt, args, tys, dty):
    it = list(str_items(args[0]))
    pat = list(str_items(args[1]))
    rng = range(0, len(it) - len(pat) + 1)
    if mt.group(1) == 'rfind':
        rng = reversed(rng)
    for i in rng:
        ok = True
        for j, p in enumerate(pat):
            r = char_eq(m, it[i + j], p)
            if r is None:
                raise Unsupported('find inside integer rendering')
            if not r:
                ok = False
                break
        if ok:
            return some(i)
    return NONE()


@summary(r'core::str::<impl str>::rfind::<(char|&\[char\])>')
def str_rfind(m, mt, args, tys, dty):
    it = str_items(args[0])
    pats = _pattern_codes(args[1])
    for i in range(len(it) - 1, -1, -1):
        for p in pats:
            r = char_eq(m, it[i], p)
            if r is None:
                raise Unsupported('rfind inside integer rendering')
            if r:
                return some(i)
    return NONE()


@summary(r'core::str::<impl str>::(split_once|rsplit_once)::<(char)>')
def str_split_once(m, mt, args, tys, dty):
    sl = str_slice(args[0])
    it = sl.base[sl.lo:sl.hi]
    p = _pattern_codes(args[1])[0]
    idxs = range(len(it)) if mt.group(1) == 'split_once' else range(len(it) - 1, -1, -1)
    for i in idxs:
        r = char_eq(m, it[i], p)
        if r is None:
            raise Unsupported('split_once inside integer rendering')
        if r:
            return some(Agg('tuple', '()', [SliceV(sl.base, sl.lo, sl.lo + i), SliceV(sl.base, sl.lo + i + 1, sl.hi)]))
    return NONE()


@summary(r'core::char::methods::<impl char>::(is_ascii_digit|is_ascii)|core::num::<impl u8>::(is_ascii_digit|is_ascii)')
def char_is_ascii_digit(m, mt, args, tys, dty):
    c = deref(args[0])
    what = mt.group(1) or mt.group(2)
    if what == 'is_ascii':
        return c < 128
    return z3.And(c >= 48, c <= 57) if is_sym(c) else (48 <= c <= 57)


@summary(r'core::char::methods::<impl char>::to_digit')
def char_to_digit(m, mt, args, tys, dty):
    c, radix = args
    if radix != 10:
        raise Unsupported('to_digit radix')
    isd = z3.And(c >= 48, c <= 57) if is_sym(c) else (48 <= c <= 57)
    return some(c - 48) if m.branch_bool(isd) else NONE()


# ---- Option / Result combinators
@summary(r'Option::<.*>::(unwrap_or_else|map_or_else|map_or|filter|or_else|ok_or|unwrap_or_default|take|cloned|copied|as_ref|as_mut|as_deref|xor|and|is_none_or|inspect)(?:::<.*>)?')
def option_more(m, mt, args, tys, dty):
    what = mt.group(1)
    o = deref(args[0])
    is_some = o.variant == 'Some'
    if what == 'unwrap_or_else':
        return o.fields[0] if is_some else call_callable(m, args[1], [], dty)
    if what == 'map_or':
        return call_callable(m, args[2], [o.fields[0]], dty) if is_some else args[1]
    if what == 'map_or_else':
        return call_callable(m, args[2], [o.fields[0]], dty) if is_some else call_callable(m, args[1], [], dty)
    if what == 'filter':
        if not is_some:
            return NONE()
        return o if m.branch_bool(call_callable(m, args[1], [Ref([o.fields[0]], 0)], 'bool')) else NONE()
    if what == 'or_else':
        return o if is_some else call_callable(m, args[1], [], dty)
    if what == 'ok_or':
        return mk_enum('Result', 'Ok', [o.fields[0]]) if is_some else mk_enum('Result', 'Err', [args[1]])
    if what == 'unwrap_or_default':
        if is_some:
            return o.fields[0]
        raise Unsupported('unwrap_or_default on None')
    if what == 'take':
        r = mk_enum('Option', o.variant, list(o.fields))
        args[0].set(NONE())
        return r
    if what in ('cloned', 'copied'):
        return some(copy_val(deref(o.fields[0]))) if is_some else NONE()
    if what in ('as_ref', 'as_mut'):
        return some(Ref(o.fields, 0)) if is_some else NONE()
    if what == 'as_deref':
        return some(deref(o.fields[0])) if is_some else NONE()
    if what == 'and':
        return args[1] if is_some else NONE()
    if what == 'xor':
        b = args[1]
        if is_some != (b.variant == 'Some'):
            return o if is_some else b
        return NONE()
    if what == 'is_none_or':
        return True if not is_some else call_callable(m, args[1], [o.fields[0]], 'bool')
    if what == 'inspect':
        return o
    raise Unsupported('Option::' + what)


@summary(r'Result::<.*>::(map|map_err|and_then|or_else|unwrap_or|unwrap_or_else|is_ok|is_err|err|as_ref|unwrap_err|expect_err|ok_or|map_or|unwrap_or_default)(?:::<.*>)?')
def result_more(m, mt, args, tys, dty):
    what = mt.group(1)
    r = deref(args[0])
    ok = r.variant == 'Ok'
    if what == 'map':
        return mk_enum('Result', 'Ok', [call_callable(m, args[1], [r.fields[0]], dty)]) if ok else r
    if what == 'map_err':
        return r if ok else mk_enum('Result', 'Err', [call_callable(m, args[1], [r.fields[0]], dty)])
    if what == 'and_then':
        return call_callable(m, args[1], [r.fields[0]], dty) if ok else r
    if what == 'or_else':
        return r if ok else call_callable(m, args[1], [r.fields[0]], dty)
    if what == 'unwrap_or':
        return r.fields[0] if ok else args[1]
    if what == 'unwrap_or_else':
        return r.fields[0] if ok else call_callable(m, args[1], [r.fields[0]], dty)
    if what == 'is_ok':
        return ok
    if what == 'is_err':
        return not ok
    if what == 'err':
        return NONE() if ok else some(r.fields[0])
    if what == 'as_ref':
        return mk_enum('Result', r.variant, [Ref(r.fields, 0)])
    if what in ('unwrap_err', 'expect_err'):
        if ok:
            raise Panic('UnwrapErrOnOk', what)
        return r.fields[0]
    if what == 'map_or':
        return call_callable(m, args[2], [r.fields[0]], dty) if ok else args[1]
    raise Unsupported('Result::' + what)


@summary(r'<Option<.*> as Clone>::clone|<Result<.*> as Clone>::clone')
def option_clone(m, mt, args, tys, dty):
    return copy_val(deref(args[0]))


# ---- more integer methods
@summary(r'core::num::<impl (%s)>::(wrapping_add|wrapping_sub|wrapping_mul|wrapping_neg)' % INT)
def int_wrapping(m, mt, args, tys, dty):
    lo, hi = INT_RANGE[mt.group(1)]
    op = mt.group(2)
    x = args[0]
    v = -x if op == 'wrapping_neg' else {'wrapping_add': lambda: x + args[1], 'wrapping_sub': lambda: x - args[1], 'wrapping_mul': lambda: x * args[1]}[op]()
    n = hi - lo + 1
    if not is_sym(v):
        return (v - lo) % n + lo
    q, r = m.fresh('wq'), m.fresh('wr')
    m.assume(z3.And(v - lo == q * n + r, r >= 0, r < n))
    return r + lo


@summary(r'core::num::<impl (%s)>::saturating_(mul|pow)' % INT)
def int_saturating_mul(m, mt, args, tys, dty):
    lo, hi = INT_RANGE[mt.group(1)]
    x, y = args
    if mt.group(2) == 'pow':
        y = m.concretize(y)
        if is_sym(x):
            raise Unsupported('saturating_pow symbolic base')
        v = x ** y
    else:
        v = x * y
    if is_sym(v):
        return z3.If(v > hi, hi, z3.If(v < lo, lo, v))
    return max(lo, min(hi, v))


@summary(r'core::num::<impl (%s)>::(checked_pow|checked_div|checked_rem|checked_abs)' % INT)
def int_checked_more(m, mt, args, tys, dty):
    lo, hi = INT_RANGE[mt.group(1)]
    op = mt.group(2)
    x = args[0]
    if op == 'checked_abs':
        if m.branch_bool(x == lo) and lo < 0:
            return NONE()
        return some(zabs(x))
    y = args[1]
    if op == 'checked_pow':
        y = m.concretize(y)
        if is_sym(x):
            raise Unsupported('checked_pow symbolic base')
        v = x ** y
        return some(v) if lo <= v <= hi else NONE()
    if m.branch_bool(y == 0):
        return NONE()
    q, r = m.tdivrem(x, y)
    v = q if op == 'checked_div' else r
    if lo < 0 and m.branch_bool(z3.And(x == lo, y == -1) if (is_sym(x) or is_sym(y)) else (x == lo and y == -1)):
        return NONE()
    return some(v)


@summary(r'core::num::<impl (%s)>::(abs_diff|unsigned_abs|signum|is_positive|is_negative|div_euclid|clamp|min|max|leading_zeros|count_ones|is_power_of_two|ilog10|ilog2)' % INT)
def int_misc(m, mt, args, tys, dty):
    lo, hi = INT_RANGE[mt.group(1)]
    op = mt.group(2)
    x = args[0]
    if op == 'abs_diff':
        d = x - args[1]
        return zabs(d)
    if op == 'unsigned_abs':
        return zabs(x)
    if op == 'signum':
        return z3.If(x > 0, 1, z3.If(x < 0, -1, 0)) if is_sym(x) else ((x > 0) - (x < 0))
    if op == 'is_positive':
        return x > 0
    if op == 'is_negative':
        return x < 0
    if op == 'min':
        y = args[1]
        return z3.If(x <= y, x, y) if (is_sym(x) or is_sym(y)) else min(x, y)
    if op == 'max':
        y = args[1]
        return z3.If(x >= y, x, y) if (is_sym(x) or is_sym(y)) else max(x, y)
    if op == 'clamp':
        a, b = args[1], args[2]
        if is_sym(x) or is_sym(a) or is_sym(b):
            return z3.If(x < a, a, z3.If(x > b, b, x))
        return max(a, min(b, x))
    if op == 'div_euclid':
        y = args[1]
        if is_sym(y):
            raise Unsupported('div_euclid by symbolic')
        if not is_sym(x):
            return (x - (x % abs(y))) // y
        q, r = m.fresh('eq'), m.fresh('er')
        m.assume(z3.And(x == q * y + r, r >= 0, r < abs(y)))
        return q
    x = m.concretize(x) if is_sym(x) else x
    bits = {'u8': 8, 'u16': 16, 'u32': 32, 'u64': 64, 'u128': 128, 'usize': 64, 'i8': 8, 'i16': 16, 'i32': 32, 'i64': 64, 'i128': 128, 'isize': 64}[mt.group(1)]
    if op == 'leading_zeros':
        return bits - (x % 2 ** bits).bit_length()
    if op == 'count_ones':
        return bin(x % 2 ** bits).count('1')
    if op == 'is_power_of_two':
        return x > 0 and x & (x - 1) == 0
    if op == 'ilog10':
        return len(str(x)) - 1
    if op == 'ilog2':
        return x.bit_length() - 1
    raise Unsupported(op)


@summary(r'<(%s) as (?:std::convert::)?TryFrom<(%s)>>::try_from' % (INT, INT))
def int_try_from_int(m, mt, args, tys, dty):
    lo, hi = INT_RANGE[mt.group(1)]
    x = args[0]
    ok = z3.And(x >= lo, x <= hi) if is_sym(x) else (lo <= x <= hi)
    if m.branch_bool(ok):
        return mk_enum('Result', 'Ok', [x])
    return mk_enum('Result', 'Err', [Agg('struct', 'TryFromIntError', [])])


@summary(r'<(%s) as (?:std::convert::)?TryInto<(%s)>>::try_into' % (INT, INT))
def int_try_into_int(m, mt, args, tys, dty):
    lo, hi = INT_RANGE[mt.group(2)]
    x = args[0]
    ok = z3.And(x >= lo, x <= hi) if is_sym(x) else (lo <= x <= hi)
    if m.branch_bool(ok):
        return mk_enum('Result', 'Ok', [x])
    return mk_enum('Result', 'Err', [Agg('struct', 'TryFromIntError', [])])


@summary(r'<(%s) as From<(%s|bool|char)>>::from|<(%s|bool|char) as Into<(%s)>>::into' % (INT, INT, INT, INT))
def int_from_int(m, mt, args, tys, dty):
    x = args[0]
    if isinstance(x, bool):
        return int(x)
    if is_sym(x) and z3.is_bool(x):
        return z3.If(x, 1, 0)
    return x


@summary(r'<(%s) as std::string::ToString>::to_string' % INT)
def int_to_string(m, mt, args, tys, dty):
    x = deref(args[0])
    if is_sym(x):
        return StrV([IntRender(x, False)])
    return StrV([ord(c) for c in str(x)])


@summary(r'<(%s) as (?:num_traits::)?(?:Zero|One)>::(zero|one)' % INT)
def int_zero_one(m, mt, args, tys, dty):
    return 0 if mt.group(2) == 'zero' else 1


@summary(r'<(%s) as (?:num_traits::)?Signed>::(abs|is_negative|is_positive|signum)' % INT)
def int_signed_trait(m, mt, args, tys, dty):
    x = deref(args[0])
    op = mt.group(2)
    if op == 'abs':
        return zabs(x)
    if op == 'is_negative':
        return x < 0
    if op == 'is_positive':
        return x > 0
    return z3.If(x > 0, 1, z3.If(x < 0, -1, 0)) if is_sym(x) else ((x > 0) - (x < 0))


@summary(r'<%s as (?:num_traits::)?Signed>::(signum)' % BIG)
def big_signum(m, mt, args, tys, dty):
    x = deref(args[0])
    return z3.If(x > 0, 1, z3.If(x < 0, -1, 0)) if is_sym(x) else ((x > 0) - (x < 0))


@summary(r'<%s as (?:num_integer::)?Integer>::(div_floor|mod_floor|div_mod_floor|gcd|is_multiple_of)' % BIG)
def big_integer_more(m, mt, args, tys, dty):
    x, y = deref(args[0]), deref(args[1])
    op = mt.group(1)
    if op == 'div_mod_floor':
        if is_sym(y):
            raise Unsupported('Integer::div_mod_floor by a symbolic value')
        if y == 0:
            raise Panic('DivByZero', 'div_mod_floor by zero')
        if not is_sym(x):
            return Agg('tuple', '()', [x // y, x % y])
        q, r = m.fresh('fq'), m.fresh('fr')
        m.assume(z3.And(x == q * y + r, r >= 0, r < abs(y)) if y > 0 else z3.And(x == q * y + r, r <= 0, r > y))
        return Agg('tuple', '()', [q, r])
    if is_sym(y):
        raise Unsupported('Integer::%s by a symbolic value' % op)
    if op == 'is_multiple_of':
        return x % y == 0
    if op == 'gcd':
        raise Unsupported('gcd')
    if not is_sym(x):
        return x // y if op == 'div_floor' else x % y
    q, r = m.fresh('fq'), m.fresh('fr')
    m.assume(z3.And(x == q * y + r, r >= 0, r < abs(y)) if y > 0 else z3.And(x == q * y + r, r <= 0, r > y))
    return q if op == 'div_floor' else r


@summary(r'(?:num_bigint::)?Big(?:Int|Uint)::(is_zero|is_one)')
def big_inherent_is(m, mt, args, tys, dty):
    return deref(args[0]) == (0 if mt.group(1) == 'is_zero' else 1)


@summary(r'<%s as (?:num_traits::)?Pow<(%s)>>::pow|<&%s as (?:num_traits::)?Pow<(%s)>>::pow' % (BIG, INT, BIG, INT))
def big_pow_trait(m, mt, args, tys, dty):
    base = deref(args[0])
    e = m.concretize(args[1])
    if is_sym(base):
        p = root_power(m, base, e)
        if p is not None:
            return p
        if e > 3:
            raise Unsupported('pow of symbolic base')
        r = 1
        for _ in range(e):
            r = r * base
        return r
    return base ** e


@summary(r'(?:num_bigint::)?BigInt::into_parts')
def bigint_into_parts(m, mt, args, tys, dty):
    x = args[0]
    return Agg('tuple', '()', [big_sign(m, None, [Ref([x], 0)], None, None), zabs(x)])


@summary(r'(?:num_bigint::)?BigInt::(to_biguint)|<%s as (?:num_bigint::)?ToBigUint>::to_biguint' % BIG)
def bigint_to_biguint(m, mt, args, tys, dty):
    x = deref(args[0])
    if m.branch_bool(x < 0):
        return NONE()
    return some(x)


@summary(r'(?:num_bigint::)?BigInt::(into_magnitude)')
def bigint_into_magnitude(m, mt, args, tys, dty):
    return zabs(args[0])


@summary(r'<%s as (?:num_bigint::)?ToBigInt>::to_bigint' % BIG)
def big_to_bigint(m, mt, args, tys, dty):
    return some(deref(args[0]))


@summary(r'<%s as From<%s>>::from|<%s as Into<%s>>::into' % (BIG, BIG, BIG, BIG))
def big_from_big(m, mt, args, tys, dty):
    return args[0]


@summary(r'<%s as Default>::default' % BIG)
def big_default(m, mt, args, tys, dty):
    return 0


@summary(r'std::mem::(replace|take)::<.*>')
def mem_replace(m, mt, args, tys, dty):
    old = args[0].get()
    if mt.group(1) == 'replace':
        args[0].set(args[1])
    else:
        if isinstance(old, VecV):
            args[0].set(VecV([]))
        elif isinstance(old, StrV):
            args[0].set(StrV())
        elif isinstance(old, Agg) and old.kind == 'enum' and old.name == 'Option':
            args[0].set(NONE())
        elif isinstance(old, int) or is_sym(old):
            args[0].set(0)
        else:
            raise Unsupported('mem::take of %r' % (old,))
    return old


@summary(r'std::mem::drop::<.*>|core::mem::drop::<.*>|std::mem::forget::<.*>')
def mem_drop(m, mt, args, tys, dty):
    return UNIT()


@summary(r'std::cmp::(max|min)::<.*>')
def cmp_maxmin_generic(m, mt, args, tys, dty):
    x, y = args
    if isinstance(x, Agg) or isinstance(y, Agg):
        raise Unsupported('cmp::max/min on aggregates')
    if not is_sym(x) and not is_sym(y):
        return max(x, y) if mt.group(1) == 'max' else min(x, y)
    return z3.If(x >= y, x, y) if mt.group(1) == 'max' else z3.If(x <= y, x, y)


# ---- Hasher: the harness passes a python list as recording state; every write call is one recorded chunk
@summary(r'<.* as (?:std::hash::|core::hash::)?Hasher>::write')
def hasher_write(m, mt, args, tys, dty):
    h = deref(args[0])
    sl = args[1]
    try:
        items = list(str_items(sl))
    except Unsupported:
        s2 = as_slice(sl)
        items = [s2.get(i) for i in range(len(s2))]
    h.append(items)
    return UNIT()


@summary(r'<.* as (?:std::hash::|core::hash::)?Hasher>::write_(u8|u16|u32|u64|u128|usize|i8|i16|i32|i64|i128|isize|length_prefix|str)')
def hasher_write_prim(m, mt, args, tys, dty):
    h = deref(args[0])
    if mt.group(1) == 'str':
        h.append(list(str_items(args[1])))
        h.append([0xff])
    elif mt.group(1) in ('u8', 'i8'):
        h.append([args[1]])
    else:
        h.append([('int:' + mt.group(1), args[1])])
    return UNIT()


@summary(r'<(?:str|&str) as std::hash::Hash>::hash::<.*>')
def str_hash(m, mt, args, tys, dty):
    deref(args[1]).append(list(str_items(args[0])))
    deref(args[1]).append([0xff])
    return UNIT()


@summary(r'<(%s) as std::hash::Hash>::hash::<.*>' % INT)
def int_hash(m, mt, args, tys, dty):
    deref(args[1]).append([('int:' + mt.group(1), deref(args[0]))])
    return UNIT()


@summary(r'<&?%s as (?:std::ops::)?(Shl|Shr)<&?(%s)>>::(shl|shr)' % (BIG, INT))
def big_shift(m, mt, args, tys, dty):
    x, k = deref(args[0]), deref(args[1])
    k = m.concretize(k) if is_sym(k) else k
    if mt.group(1) == 'Shl':
        return x * 2 ** k
    if not is_sym(x):
        return x >> k
    q, r = m.fresh('bsq'), m.fresh('bsr')
    m.assume(z3.And(x == q * 2 ** k + r, r >= 0, r < 2 ** k))
    return q


@summary(r'<%s as (?:std::ops::)?(ShlAssign|ShrAssign)<&?(%s)>>::(shl_assign|shr_assign)' % (BIG, INT))
def big_shift_assign(m, mt, args, tys, dty):
    r = args[0]
    v = big_shift(m, re.match(r'.*(Shl|Shr).*', 'Shl' if mt.group(1) == 'ShlAssign' else 'Shr'), [r.get(), args[1]], tys, dty) if False else None
    x, k = r.get(), deref(args[1])
    k = m.concretize(k) if is_sym(k) else k
    if mt.group(1) == 'ShlAssign':
        r.set(x * 2 ** k)
    else:
        if not is_sym(x):
            r.set(x >> k)
        else:
            q, rem = m.fresh('bsq'), m.fresh('bsr')
            m.assume(z3.And(x == q * 2 ** k + rem, rem >= 0, rem < 2 ** k))
            r.set(q)
    return UNIT()



# ---- more iterator adaptors
class MapV:
    def __init__(self, inner, f):
        self.inner, self.f = inner, f


class SkipV:
    def __init__(self, inner, n):
        self.inner, self.n = inner, n


class TakeV:
    def __init__(self, inner, n):
        self.inner, self.n = inner, n


class EnumerateV:
    def __init__(self, inner):
        self.inner, self.i = inner, 0


class ChainV:
    def __init__(self, a, b):
        self.a, self.b = a, b


class FilterV:
    def __init__(self, inner, f):
        self.inner, self.f = inner, f


_it_next_base = it_next


def it_next(m, it):
    v = deref(it)
    if isinstance(v, MapV):
        e = it_next(m, v.inner)
        return None if e is None else call_callable(m, Ref([v.f], 0), [e], '?')
    if isinstance(v, SkipV):
        while v.n > 0:
            v.n -= 1
            if it_next(m, v.inner) is None:
                return None
        return it_next(m, v.inner)
    if isinstance(v, TakeV):
        if v.n <= 0:
            return None
        v.n -= 1
        return it_next(m, v.inner)
    if isinstance(v, EnumerateV):
        e = it_next(m, v.inner)
        if e is None:
            return None
        v.i += 1
        return Agg('tuple', '()', [v.i - 1, e])
    if isinstance(v, ChainV):
        e = it_next(m, v.a)
        return e if e is not None else it_next(m, v.b)
    if isinstance(v, FilterV):
        while True:
            e = it_next(m, v.inner)
            if e is None:
                return None
            if m.branch_bool(call_callable(m, Ref([v.f], 0), [Ref([e], 0)], 'bool')):
                return e
    if isinstance(v, IterV) and False:
        pass
    return _it_next_base(m, it)


import sys as _sys
_sys.modules[__name__].it_next = it_next


@summary(r'<.* as Iterator>::by_ref')
def iter_by_ref(m, mt, args, tys, dty):
    return args[0]


@summary(r'<.* as Iterator>::map::<.*>')
def iter_map(m, mt, args, tys, dty):
    return MapV(args[0], args[1])


@summary(r'<.* as Iterator>::skip')
def iter_skip(m, mt, args, tys, dty):
    return SkipV(args[0], m.concretize(args[1]))


@summary(r'<.* as Iterator>::take')
def iter_take(m, mt, args, tys, dty):
    v = args[0]
    if isinstance(v, Agg) and v.name == 'Repeat':
        return Agg('struct', 'Take', [v.fields[0], args[1]])
    return TakeV(v, m.concretize(args[1]))


@summary(r'<.* as Iterator>::enumerate')
def iter_enumerate(m, mt, args, tys, dty):
    return EnumerateV(args[0])


@summary(r'<.* as Iterator>::chain::<.*>')
def iter_chain(m, mt, args, tys, dty):
    return ChainV(args[0], args[1])


@summary(r'<.* as Iterator>::filter::<.*>')
def iter_filter(m, mt, args, tys, dty):
    return FilterV(args[0], args[1])


@summary(r'<.* as Iterator>::rev')
def iter_rev_generic(m, mt, args, tys, dty):
    it = args[0]
    if isinstance(it, IterV):
        it.rev = not it.rev
        return it
    raise Unsupported('rev on %r' % (it,))


@summary(r'<.* as Iterator>::(last|nth)')
def iter_last_nth(m, mt, args, tys, dty):
    if mt.group(1) == 'nth':
        n = m.concretize(args[1])
        e = None
        for _ in range(n + 1):
            e = it_next(m, args[0])
            if e is None:
                return NONE()
        return some(e)
    last = None
    while True:
        e = it_next(m, args[0])
        if e is None:
            return NONE() if last is None else some(last)
        last = e


@summary(r'<.* as Iterator>::collect::<(?:std::vec::)?Vec<.*>>')
def iter_collect_vec(m, mt, args, tys, dty):
    out = []
    while True:
        e = it_next(m, args[0])
        if e is None:
            return VecV(out)
        out.append(e)


@summary(r'<.* as Iterator>::collect::<(?:std::string::)?String>')
def iter_collect_string(m, mt, args, tys, dty):
    out = []
    while True:
        e = it_next(m, args[0])
        if e is None:
            return StrV(out)
        out.append(deref(e) if isinstance(e, Ref) else (ord(e) if isinstance(e, str) else e))


@summary(r'<.* as Iterator>::sum::<(%s)>' % INT)
def iter_sum_int(m, mt, args, tys, dty):
    tot = 0
    while True:
        e = it_next(m, args[0])
        if e is None:
            return tot
        tot = tot + (deref(e) if isinstance(e, Ref) else e)


@summary(r'<.* as (?:ExactSizeIterator|Iterator)>::(len|size_hint)')
def iter_len(m, mt, args, tys, dty):
    v = deref(args[0])
    if isinstance(v, IterV) and mt.group(1) == 'len':
        return v.back - v.front
    raise Unsupported('iterator len')


@summary(r'<.* as DoubleEndedIterator>::next_back')
def iter_next_back(m, mt, args, tys, dty):
    v = deref(args[0])
    if isinstance(v, IterV):
        v.rev = not v.rev
        e = iter_next(v)
        v.rev = not v.rev
        return NONE() if e is None else some(e)
    raise Unsupported('next_back')


# ---- Cow
@summary(r'(?:std::borrow::)?Cow::<.*>::to_mut')
def cow_to_mut(m, mt, args, tys, dty):
    c = deref(args[0])
    if c.variant == 'Borrowed':
        val = copy_val(deref(c.fields[0]))
        c.variant = 'Owned'
        c.fields[:] = [val]
    return Ref(c.fields, 0)


@summary(r'<(?:std::borrow::)?Cow<.*> as Deref>::deref|<(?:std::borrow::)?Cow<.*> as AsRef<.*>>::as_ref')
def cow_deref(m, mt, args, tys, dty):
    c = deref(args[0])
    if c.variant == 'Borrowed':
        r = c.fields[0]
        return r if isinstance(r, Ref) else Ref(c.fields, 0)
    return Ref(c.fields, 0)


@summary(r'(?:std::borrow::)?Cow::<.*>::into_owned')
def cow_into_owned(m, mt, args, tys, dty):
    c = args[0]
    return copy_val(deref(c.fields[0])) if c.variant == 'Borrowed' else c.fields[0]


@summary(r'<(?:\[.*\]|\[.*; \d+\]|std::vec::Vec<.*>|&\[.*\]) as PartialEq<(?:\[.*\]|\[.*; \d+\]|std::vec::Vec<.*>|&\[.*\]|&\[.*; \d+\])>>::(eq|ne)')
def slice_eq(m, mt, args, tys, dty):
    a, b = as_slice(args[0]), as_slice(args[1])
    neg = mt.group(1) == 'ne'
    if len(a) != len(b):
        return neg
    conds = []
    for i in range(len(a)):
        x, y = a.get(i), b.get(i)
        if not is_sym(x) and not is_sym(y):
            if x != y:
                return neg
        else:
            conds.append(x == y)
    r = z3.And(conds) if conds else True
    if not neg:
        return r
    return (not r) if isinstance(r, bool) else z3.Not(r)


@summary(r'<(?:str|&str|std::string::String|String) as (?:std::fmt::)?(?:Display|Debug)>::fmt')
def str_display_fmt(m, mt, args, tys, dty):
    f = deref(args[1])
    f.out.extend(_apply_padding(list(str_items(args[0])), getattr(f, 'pad', {}), 0))
    return mk_enum('Result', 'Ok', [UNIT()])


@summary(r'<(?:std::num::|core::num::)?(?:ParseIntError|ParseFloatError)|(?:num_bigint::)?ParseBigIntError|std::str::Utf8Error|Utf8Error as (?:std::fmt::)?(?:Display|Debug)>::fmt#x')
def _unused_err_fmt(m, mt, args, tys, dty):
    pass


@summary(r'<(?:(?:std::num::|core::num::)?ParseIntError|(?:std::num::|core::num::)?ParseFloatError|(?:num_bigint::)?ParseBigIntError) as (?:std::fmt::)?(?:Display|Debug)>::fmt')
def err_display_fmt(m, mt, args, tys, dty):
    deref(args[1]).out.extend(ord(c) for c in '<std/num-bigint parse error text>')
    return mk_enum('Result', 'Ok', [UNIT()])



@summary(r'<Option<.*> as PartialEq>::(eq|ne)')
def option_eq(m, mt, args, tys, dty):
    a, b = deref(args[0]), deref(args[1])
    neg = mt.group(1) == 'ne'
    if a.variant != b.variant:
        return neg
    if a.variant == 'None':
        return not neg
    x, y = deref(a.fields[0]), deref(b.fields[0])
    if isinstance(x, Agg) or isinstance(y, Agg):
        raise Unsupported('Option<aggregate> equality')
    r = x == y
    if not neg:
        return r
    return (not r) if isinstance(r, bool) else z3.Not(r)


@summary(r'(?:std::ops::|core::ops::)?Range(Inclusive)?::<(%s)>::contains::<.*>' % INT)
def range_contains(m, mt, args, tys, dty):
    r = deref(args[0])
    x = deref(args[1])
    lo, hi = r.fields[0], r.fields[1]
    if mt.group(1):
        c = [x >= lo, x <= hi]
    else:
        c = [x >= lo, x < hi]
    if all(isinstance(v, bool) for v in c):
        return all(c)
    return z3.And([v for v in c if not isinstance(v, bool)] + [z3.BoolVal(v) for v in c if isinstance(v, bool)])


@summary(r'<(?:std::ops::|core::ops::)?Range(?:Inclusive)?<(%s)> as (?:std::ops::|core::ops::)?RangeBounds<.*>>::contains::<.*>' % INT)
def range_contains_trait(m, mt, args, tys, dty):
    return range_contains(m, re.match(r'(?:std::ops::|core::ops::)?Range(Inclusive)?::<(%s)>::contains::<.*>' % INT, 'Range::<i64>::contains::<i64>'), args, tys, dty)



# ---- float round trip support (C14): std::parse::<f64> and BigUint::to_f64 by contract tokens
class ParsedF64:
    """the f64 that std's correctly-rounded parser returns for this text (contract: nearest float to the denoted value)"""
    def __init__(self, items, neg=False):
        self.items, self.neg = list(items), neg


class BigToF64:
    """the f64 nearest to this integer (num-bigint contract); exact when the integer is representable"""
    def __init__(self, x, neg=False):
        self.x, self.neg = x, neg


class PowiF64:
    """f64::powi(base, k) as a token (std documents no precision for it)"""
    def __init__(self, base, k):
        self.base, self.k = base, k


class F64Prod:
    """IEEE product of two float tokens"""
    def __init__(self, a, b, neg=False):
        self.a, self.b, self.neg = a, b, neg


class F64Quot:
    """IEEE quotient of two floats / float tokens"""
    def __init__(self, a, b, neg=False):
        self.a, self.b, self.neg = a, b, neg


class IntToF64:
    """`n as f64`: the f64 nearest to the integer (IEEE round-to-nearest-even)"""
    def __init__(self, x, neg=False):
        self.x, self.neg = x, neg


FLOAT_TOKENS = (ParsedF64, BigToF64, PowiF64, F64Prod, F64Quot, IntToF64)


@summary(r'(?:std::|core::)?f64::<impl f64>::powi')
def f64_powi(m, mt, args, tys, dty):
    base, k = args
    if isinstance(base, float) and not is_sym(k) and abs(k) <= 22 and base == 10.0 and FLOAT_TOKEN_MODE[0] != 'always':
        return base ** k          # exact in f64
    return PowiF64(base, k)


FLOAT_TOKEN_MODE = ['auto']


@summary(r'core::str::<impl str>::parse::<f64>')
def str_parse_f64(m, mt, args, tys, dty):
    return mk_enum('Result', 'Ok', [ParsedF64(str_items(args[0]))])


@summary(r'<%s as (?:num_traits::)?ToPrimitive>::to_f64' % BIG)
def big_to_f64(m, mt, args, tys, dty):
    return some(BigToF64(deref(args[0])))


for _i, (_n, _rx, _fn) in enumerate(SUMMARIES):
    if _n == 'float_neg':
        def _fneg(m, mt, args, tys, dty, _orig=_fn):
            v = args[0]
            if isinstance(v, ParsedF64):
                return ParsedF64(v.items, not v.neg)
            if isinstance(v, BigToF64):
                return BigToF64(v.x, not v.neg)
            if isinstance(v, F64Prod):
                return F64Prod(v.a, v.b, not v.neg)
            if isinstance(v, F64Quot):
                return F64Quot(v.a, v.b, not v.neg)
            if isinstance(v, IntToF64):
                return IntToF64(v.x, not v.neg)
            return _orig(m, mt, args, tys, dty)
        SUMMARIES[_i] = (_n, _rx, _fneg)


@summary(r'<f64 as Into<Option<f64>>>::into|<Option<f64> as From<f64>>::from')
def f64_into_option(m, mt, args, tys, dty):
    return some(args[0])


@summary(r'(?:std::)?f64::<impl f64>::(floor|ceil|trunc|round|abs|sqrt|exp2|log10|log2|ln)|core::f64::<impl f64>::(floor|ceil|trunc|round|abs)')
def f64_math(m, mt, args, tys, dty):
    x = args[0]
    if not isinstance(x, float):
        raise Unsupported('float math on a symbolic value')
    op = mt.group(1) or mt.group(2)
    return {'floor': math.floor, 'ceil': math.ceil, 'trunc': math.trunc, 'round': round, 'abs': abs, 'sqrt': math.sqrt,
            'exp2': lambda v: 2.0 ** v, 'log10': math.log10, 'log2': math.log2, 'ln': math.log}[op](x) * 1.0


@summary(r'<&mut \[u8\] as std::io::Write>::write_fmt')
def slice_io_write_fmt(m, mt, args, tys, dty):
    cur = args[0].get()            # the &mut [u8] cursor: writing advances it
    sl = as_slice(cur)
    out = []
    # byte buffers need concrete text: fix machine-integer arguments first, while the path condition is still cheap
    for a in args[1].args:
        if re.fullmatch(INT, a.ty):
            v = deref(a.ref)
            if is_sym(v):
                a.ref = Ref([m.concretize(v, limit=64)], 0)
    render_template(m, args[1], out)
    flat = []
    for c in out:
        if isinstance(c, IntRender):
            val = m.concretize(c.t, limit=64)           # byte buffers need concrete text: fork over the feasible values
            txt = ('+' if (c.plus and val >= 0) else '') + str(val)
            flat.extend(ord(ch) for ch in txt)
        else:
            flat.append(c)
    out = flat
    if len(out) > len(sl):
        return mk_enum('Result', 'Err', [Agg('struct', 'io::Error', [])])
    for i, c in enumerate(out):
        sl.base[sl.lo + i] = c
    args[0].set(SliceV(sl.base, sl.lo + len(out), sl.hi))
    return mk_enum('Result', 'Ok', [UNIT()])


# ---- exact IEEE reasoning on symbolic floats with a CONCRETE exponent field (FloatV) and on `n as f64` tokens ----------
def _floatv_rational(m, a):
    """FloatV with concrete exponent field -> ('nan'|'inf'|'fin', sgn(+1/-1, concrete after a fork), M (int term), E) : value = sgn*M*2^E"""
    ebits, mbits = FLOAT_FMT[a.ty][:2]
    if is_sym(a.exp):
        raise Unsupported('float comparison with a symbolic exponent field')
    bias = 2 ** (ebits - 1) - 1
    sgn = -1 if m.branch_bool(a.sign == 1) else 1
    if a.exp == 2 ** ebits - 1:
        return ('nan' if m.branch_bool(a.frac != 0) else 'inf'), sgn, None, None
    if a.exp == 0:
        return 'fin', sgn, a.frac, 1 - bias - mbits
    return 'fin', sgn, a.frac + 2 ** mbits, a.exp - bias - mbits


def round_int_to_f64(m, n):
    """the integer value of `n as f64` (round to nearest, ties to even) for an integer term |n| < 2^64; forks on the bit length"""
    neg = m.branch_bool(n < 0) if is_sym(n) else (n < 0)
    mag = -n if neg else n
    if not is_sym(mag):
        return int(float(n))
    if m.branch_bool(mag < 2 ** 53):
        return n
    b = m.choose_n(12, lambda i: z3.And(mag >= 2 ** (53 + i), mag < 2 ** (54 + i)) if i < 11 else (mag >= 2 ** 64))
    if b == 11:
        raise BoundExceeded('n as f64 with |n| >= 2^64')
    sh = b + 1                                   # bit length 54+b: drop sh low bits
    q, r = m.pow2_split(mag, sh)
    half = 2 ** (sh - 1)
    q2, odd = m.pow2_split(q, 1)
    up = m.branch_bool(z3.Or(r > half, z3.And(r == half, odd == 1)))
    res = (q + 1) * 2 ** sh if up else q * 2 ** sh
    return -res if neg else res


def float_cmp(m, op, x, y):
    """IEEE comparison between FloatV (concrete exponent field) / python float / IntToF64 operands; returns bool or z3 Bool"""
    def rat(v):
        if isinstance(v, FloatV):
            return _floatv_rational(m, v)
        if isinstance(v, IntToF64):
            r = round_int_to_f64(m, v.x)
            return 'fin', 1, (-r if v.neg else r), 0
        if isinstance(v, float):
            if v != v:
                return 'nan', 1, None, None
            if v in (float('inf'), float('-inf')):
                return 'inf', (1 if v > 0 else -1), None, None
            num, den = v.as_integer_ratio()
            return 'fin', 1, num, -(den.bit_length() - 1)
        raise Unsupported('float comparison on %s' % type(v).__name__)
    ka, sa, Ma, Ea = rat(x)
    kb, sb, Mb, Eb = rat(y)
    if ka == 'nan' or kb == 'nan':
        return op == 'Ne'
    if ka == 'inf' or kb == 'inf':
        va = sa * 2 if ka == 'inf' else 0          # order: -inf < finite < +inf
        vb = sb * 2 if kb == 'inf' else 0
        if ka == 'fin':
            va = 0
        if kb == 'fin':
            vb = 0
        l, r = va, vb
    else:
        E0 = min(Ea, Eb)
        l = sa * Ma * 2 ** (Ea - E0)
        r = sb * Mb * 2 ** (Eb - E0)
    return {'Eq': lambda: l == r, 'Ne': lambda: l != r, 'Lt': lambda: l < r, 'Le': lambda: l <= r, 'Gt': lambda: l > r, 'Ge': lambda: l >= r}[op]()


def float_to_int(m, v, ity):
    """`v as <int>` for FloatV with a concrete exponent field: truncation toward zero, saturating, NaN -> 0"""
    lo, hi = INT_RANGE[ity]
    k, sgn, M, E = _floatv_rational(m, v)
    if k == 'nan':
        return 0
    if k == 'inf':
        return hi if sgn > 0 else lo
    if E >= 0:
        mag = M * 2 ** E
    else:
        mag = m.pow2_split(M, -E)[0] if is_sym(M) else (M >> (-E))
    val = sgn * mag
    if not is_sym(val):
        return max(lo, min(hi, val))
    if m.branch_bool(val > hi):
        return hi
    if m.branch_bool(val < lo):
        return lo
    return val


# ---- broader num-bigint / num-integer surface (plausible rewrites use it even where the pinned code does not) -----------------
@summary(r'<%s as (?:num_integer::)?Integer>::(is_even|is_odd)' % BIG)
def big_integer_parity(m, mt, args, tys, dty):
    x = deref(args[0])
    r = x % 2 == 0
    if mt.group(1) == 'is_odd':
        r = (not r) if isinstance(r, bool) else z3.Not(r)
    return r


@summary(r'(?:num_bigint::)?Big(?:Int|Uint)::trailing_zeros')
def big_trailing_zeros(m, mt, args, tys, dty):
    x = zabs(deref(args[0]))
    if not is_sym(x):
        return NONE() if x == 0 else some((x & -x).bit_length() - 1)
    k = trailing_zeros_fork(m, x, 192)
    if k == 192:
        if m.feasible(x != 0):
            raise BoundExceeded('BigUint::trailing_zeros beyond 192 bits')
        return NONE()
    return some(k)


@summary(r'(?:num_bigint::)?Big(?:Int|Uint)::(to_u32_digits|to_u64_digits)')
def big_to_word_vec(m, mt, args, tys, dty):
    it = (big_iter_u32 if mt.group(1) == 'to_u32_digits' else big_iter_u64)(m, None, [args[0]], None, None)
    ws = list(it.words)
    if 'BigInt' in (tys[0] if tys else ''):
        return Agg('tuple', '()', [big_sign(m, None, [args[0]], None, None), VecV(ws)])
    return VecV(ws)


@summary(r'(?:num_bigint::)?Big(?:Int|Uint)::pow')
def big_pow_inherent(m, mt, args, tys, dty):
    base, k = deref(args[0]), args[1]
    if is_sym(k):
        k = m.concretize(k, limit=64)
    if k > 20000:
        raise BoundExceeded('pow with exponent %d' % k)
    if is_sym(base) and k > 1:
        p = root_power(m, base, k)
        if p is not None:
            return p
        raise Unsupported('symbolic base to the power %d' % k)
    return base ** k


@summary(r'<%s as (?:num_traits::)?Checked(Add|Sub|Mul|Div)>::checked_(?:add|sub|mul|div)|(?:num_bigint::)?Big(?:Int|Uint)::checked_(add|sub|mul|div)' % BIG)
def big_checked(m, mt, args, tys, dty):
    x, y = deref(args[0]), deref(args[1])
    op = (mt.group(1) or mt.group(2)).lower()
    unsigned = 'BigUint' in (tys[0] if tys else '')
    if op == 'add':
        return some(x + y)
    if op == 'mul':
        return some(x * y)
    if op == 'sub':
        if unsigned and m.branch_bool(x < y):
            return NONE()
        return some(x - y)
    if m.branch_bool(y == 0):
        return NONE()
    q, r = m.tdivrem(x, y)
    return some(q)


@summary(r'<&?%s as PartialOrd(?:<.*>)?>::partial_cmp' % BIG)
def big_partial_cmp(m, mt, args, tys, dty):
    x, y = deref(args[0]), deref(args[1])
    k = m.choose([x < y, x == y, x > y]) if (is_sym(x) or is_sym(y)) else (0 if x < y else (1 if x == y else 2))
    return some(ordering(k - 1))


@summary(r'<%s as Ord>::(max|min)' % BIG)
def big_max_min(m, mt, args, tys, dty):
    x, y = deref(args[0]), deref(args[1])
    if not (is_sym(x) or is_sym(y)):
        return max(x, y) if mt.group(1) == 'max' else min(x, y)
    c = (x >= y) if mt.group(1) == 'max' else (x <= y)
    return z3.If(c, x, y)


@summary(r'<(%s) as TryFrom<&?%s>>::try_from' % (INT, BIG))
def prim_try_from_big(m, mt, args, tys, dty):
    x = deref(args[0])
    lo, hi = INT_RANGE[mt.group(1)]
    ok = z3.And(x >= lo, x <= hi) if is_sym(x) else (lo <= x <= hi)
    if m.branch_bool(ok):
        return mk_enum('Result', 'Ok', [x])
    return mk_enum('Result', 'Err', [Agg('struct', 'TryFromBigIntError', [])])


@summary(r'<(?:num_bigint::)?BigUint as TryFrom<&?(?:num_bigint::)?BigInt>>::try_from|(?:num_bigint::)?BigInt::to_biguint')
def biguint_try_from_bigint(m, mt, args, tys, dty):
    x = deref(args[0])
    neg = m.branch_bool(x < 0)
    if mt.group(0).endswith('to_biguint'):
        return NONE() if neg else some(x)
    return mk_enum('Result', 'Err', [Agg('struct', 'TryFromBigIntError', [])]) if neg else mk_enum('Result', 'Ok', [x])


@summary(r'<%s as (?:num_traits::)?FromPrimitive>::from_(%s)' % (BIG, INT))
def big_from_primitive(m, mt, args, tys, dty):
    x = args[0]
    if 'BigUint' in mt.group(0) and m.branch_bool(x < 0):
        return NONE()
    return some(x)


@summary(r'num_integer::(div_floor|mod_floor|div_mod_floor)::<(%s)>' % INT)
def prim_floor_div(m, mt, args, tys, dty):
    x, y = args
    if m.branch_bool(y == 0):
        raise Panic('DivByZero', 'division by zero')
    if not is_sym(x) and not is_sym(y):
        q, r = x // y, x % y
    else:
        if is_sym(y):
            y = m.concretize(y, limit=64)
        q, r = m.fresh('fq'), m.fresh('fr')
        m.assume(z3.And(x == q * y + r, r >= 0, r < abs(y)) if y > 0 else z3.And(x == q * y + r, r <= 0, r > y))
    op = mt.group(1)
    return q if op == 'div_floor' else (r if op == 'mod_floor' else Agg('tuple', '()', [q, r]))


@summary(r'<%s as (?:num_traits::)?One>::set_one|<%s as (?:num_traits::)?Zero>::set_zero' % (BIG, BIG))
def big_set_const(m, mt, args, tys, dty):
    args[0].set(1 if 'set_one' in mt.group(0) else 0)
    return Agg('tuple', '()', [])


# ---- broader std surface (plausible rewrites of the crate use these) ---------------------------------------------------------
@summary(r'core::str::<impl str>::parse::<(%s)>' % INT)
def str_parse_int(m, mt, args, tys, dty):
    return int_from_str(m, mt, args, tys, dty)


@summary(r'std::cmp::Ordering::(then|is_lt|is_le|is_gt|is_ge|is_eq|is_ne|then_with::<.*>)')
def ordering_methods(m, mt, args, tys, dty):
    op = mt.group(1)
    v = args[0].variant
    if op == 'then':
        return args[0] if v != 'Equal' else args[1]
    if op.startswith('then_with'):
        return args[0] if v != 'Equal' else call_callable(m, args[1], [], 'Ordering')
    return {'is_lt': v == 'Less', 'is_le': v != 'Greater', 'is_gt': v == 'Greater', 'is_ge': v != 'Less', 'is_eq': v == 'Equal', 'is_ne': v != 'Equal'}[op]


@summary(r'core::num::<impl (%s)>::overflowing_(add|sub|mul)' % INT)
def int_overflowing(m, mt, args, tys, dty):
    x, y = args
    lo, hi = INT_RANGE[mt.group(1)]
    v = {'add': x + y, 'sub': x - y, 'mul': x * y}[mt.group(2)]
    n = hi - lo + 1
    if not is_sym(v):
        return Agg('tuple', '()', [(v - lo) % n + lo, not (lo <= v <= hi)])
    ovf = m.branch_bool(z3.Or(v < lo, v > hi))
    if not ovf:
        return Agg('tuple', '()', [v, False])
    k = m.fresh('wrapk')
    w = m.fresh('wrapv')
    m.assume(z3.And(w == v - k * n, w >= lo, w <= hi))
    return Agg('tuple', '()', [w, True])


@summary(r'core::num::<impl (%s)>::div_ceil' % INT)
def int_div_ceil(m, mt, args, tys, dty):
    x, y = args
    if m.branch_bool(y == 0):
        raise Panic('DivByZero', 'division by zero')
    if not is_sym(x) and not is_sym(y):
        return -((-x) // y)
    if is_sym(y):
        y = m.concretize(y, limit=64)
    q, r = m.fresh('cq'), m.fresh('cr')
    m.assume(z3.And(x == q * y - r, r >= 0, r < abs(y)) if y > 0 else z3.And(x == q * y - r, r <= 0, r > y))
    return q


@summary(r'core::slice::<impl \[.*\]>::(get|get_mut)(?:::<usize>)?')
def slice_get_index(m, mt, args, tys, dty):
    sl = as_slice(args[0])
    i = args[1]
    if isinstance(i, Agg):
        raise Unsupported('slice::get with a range')
    if is_sym(i):
        i = m.concretize(i, limit=64)
    if 0 <= i < len(sl):
        return some(sl.ref(i))
    return NONE()


@summary(r'std::vec::Vec::<.*>::split_off|std::string::String::split_off')
def vec_split_off(m, mt, args, tys, dty):
    v = deref(args[0])
    at = args[1]
    if is_sym(at):
        at = m.concretize(at, limit=64)
    if at > len(v.items):
        raise Panic('Bounds', 'split_off out of bounds')
    tail = v.items[at:]
    del v.items[at:]
    return StrV(tail) if isinstance(v, StrV) else VecV(tail)


@summary(r'std::vec::Vec::<.*>::append')
def vec_append(m, mt, args, tys, dty):
    a, b = deref(args[0]), deref(args[1])
    a.items.extend(b.items)
    del b.items[:]
    return Agg('tuple', '()', [])


@summary(r'std::vec::Vec::<.*>::retain::<.*>|std::string::String::retain::<.*>')
def vec_retain(m, mt, args, tys, dty):
    v = deref(args[0])
    keep = []
    holder = [args[1]]
    fref = args[1] if isinstance(args[1], Ref) else Ref(holder, 0)
    for idx, c in enumerate(list(v.items)):
        arg = c if isinstance(v, StrV) else Ref(v.items, idx)
        if m.branch_bool(call_callable(m, fref, [arg], 'bool')):
            keep.append(c)
    v.items[:] = keep
    return Agg('tuple', '()', [])


@summary(r'std::string::String::remove')
def string_remove(m, mt, args, tys, dty):
    v = deref(args[0])
    i = args[1]
    if is_sym(i):
        i = m.concretize(i, limit=64)
    if not (0 <= i < len(v.items)):
        raise Panic('Bounds', 'String::remove out of bounds')
    return v.items.pop(i)


_WS = (32, 9, 10, 11, 12, 13)


def _is_ws(m, c):
    if isinstance(c, int):
        return c in _WS
    if isinstance(c, IntRender):
        return False
    return m.branch_bool(z3.Or([c == w for w in _WS]))


@summary(r'core::str::<impl str>::(trim|trim_start|trim_end|trim_left|trim_right)')
def str_trim_ws(m, mt, args, tys, dty):
    sl = str_slice(args[0])
    lo, hi = sl.lo, sl.hi
    op = mt.group(1)
    if op in ('trim', 'trim_start', 'trim_left'):
        while lo < hi and _is_ws(m, sl.base[lo]):
            lo += 1
    if op in ('trim', 'trim_end', 'trim_right'):
        while hi > lo and _is_ws(m, sl.base[hi - 1]):
            hi -= 1
    return SliceV(sl.base, lo, hi)


@summary(r'core::str::<impl str>::(trim_matches|trim_left_matches)::<char>')
def str_trim_matches_char2(m, mt, args, tys, dty):
    sl = str_slice(args[0])
    p = _pattern_codes(args[1])[0]
    lo, hi = sl.lo, sl.hi
    while lo < hi and char_eq(m, sl.base[lo], p):
        lo += 1
    if mt.group(1) == 'trim_matches':
        while hi > lo and char_eq(m, sl.base[hi - 1], p):
            hi -= 1
    return SliceV(sl.base, lo, hi)


@summary(r'core::str::<impl str>::(strip_prefix|strip_suffix)::<(char|&str|&std::string::String)>')
def str_strip(m, mt, args, tys, dty):
    sl = str_slice(args[0])
    pat = deref(args[1])
    codes = [pat] if isinstance(pat, int) else list(str_items(pat))
    n = len(codes)
    if n > len(sl):
        return NONE()
    seg = [sl.base[sl.lo + i] for i in range(n)] if mt.group(1) == 'strip_prefix' else [sl.base[sl.hi - n + i] for i in range(n)]
    for c, p in zip(seg, codes):
        if not isinstance(p, int):
            raise Unsupported('strip_* with a symbolic pattern')
        if not char_eq(m, c, p):
            return NONE()
    return some(SliceV(sl.base, sl.lo + n, sl.hi) if mt.group(1) == 'strip_prefix' else SliceV(sl.base, sl.lo, sl.hi - n))


@summary(r'core::str::<impl str>::repeat')
def str_repeat(m, mt, args, tys, dty):
    n = args[1]
    if is_sym(n):
        n = m.concretize(n, limit=64)
    if n > 100000:
        raise BoundExceeded('str::repeat %d' % n)
    return StrV(list(str_items(args[0])) * n)


@summary(r'core::str::<impl str>::is_char_boundary')
def str_is_char_boundary(m, mt, args, tys, dty):
    i = args[1]
    if is_sym(i):
        i = m.concretize(i, limit=64)
    return 0 <= i <= len(str_items(args[0]))       # the crate only ever builds ASCII text


@summary(r'core::char::methods::<impl char>::(to_ascii_lowercase|to_ascii_uppercase)|core::num::<impl u8>::(to_ascii_lowercase|to_ascii_uppercase)')
def char_ascii_case(m, mt, args, tys, dty):
    c = deref(args[0])
    lower = 'lower' in mt.group(0)
    a, z, d = (65, 90, 32) if lower else (97, 122, -32)
    if not is_sym(c):
        return c + d if a <= c <= z else c
    return z3.If(z3.And(c >= a, c <= z), c + d, c)


@summary(r'core::char::methods::<impl char>::is_digit')
def char_is_digit_radix(m, mt, args, tys, dty):
    c, radix = deref(args[0]), args[1]
    if radix != 10:
        raise Unsupported('char::is_digit radix %r' % (radix,))
    return z3.And(c >= 48, c <= 57) if is_sym(c) else (48 <= c <= 57)


@summary(r'core::char::methods::<impl char>::is_whitespace')
def char_is_ws(m, mt, args, tys, dty):
    c = deref(args[0])
    return z3.Or([c == w for w in _WS]) if is_sym(c) else (c in _WS)


# ---- more iterator consumers / adaptors (generic over the it_next protocol) ----------------------------------------------------
def _drain(m, it, limit=100000):
    out = []
    while True:
        e = it_next(m, it)
        if e is None:
            return out
        out.append(e)
        if len(out) > limit:
            raise BoundExceeded('iterator longer than %d' % limit)


@summary(r'<.* as Iterator>::for_each::<.*>')
def iter_for_each(m, mt, args, tys, dty):
    it, f = args
    holder = [f]
    while True:
        e = it_next(m, it)
        if e is None:
            return Agg('tuple', '()', [])
        call_callable(m, Ref(holder, 0), [e], '()')


@summary(r'<.* as Iterator>::rposition::<.*>')
def iter_rposition(m, mt, args, tys, dty):
    it, f = args
    items = _drain(m, it)
    holder = [f]
    for i in range(len(items) - 1, -1, -1):
        if m.branch_bool(call_callable(m, Ref(holder, 0), [items[i]], 'bool')):
            return some(i)
    return NONE()


@summary(r'<.* as Iterator>::(find|find_map)::<.*>')
def iter_find(m, mt, args, tys, dty):
    it, f = args
    holder = [f]
    while True:
        e = it_next(m, it)
        if e is None:
            return NONE()
        if mt.group(1) == 'find':
            if m.branch_bool(call_callable(m, Ref(holder, 0), [Ref([e], 0)], 'bool')):
                return some(e)
        else:
            r = call_callable(m, Ref(holder, 0), [e], 'Option')
            if r.variant == 'Some':
                return r


class SkipWhileV:
    def __init__(self, inner, f):
        self.inner, self.f, self.done = inner, f, False


class StepByV:
    def __init__(self, inner, n):
        self.inner, self.n, self.first = inner, n, True


class ListIterV:
    """an already materialised sequence (result of rev() over an adaptor chain etc.)"""
    def __init__(self, items):
        self.items, self.i = list(items), 0


_it_next_prev = it_next


def it_next(m, it):
    v = deref(it)
    if isinstance(v, SkipWhileV):
        while True:
            e = it_next(m, v.inner)
            if e is None:
                return None
            if v.done:
                return e
            if not m.branch_bool(call_callable(m, Ref([v.f], 0), [Ref([e], 0)], 'bool')):
                v.done = True
                return e
    if isinstance(v, StepByV):
        if v.first:
            v.first = False
            return it_next(m, v.inner)
        e = None
        for _ in range(v.n):
            e = it_next(m, v.inner)
            if e is None:
                return None
        return e
    if isinstance(v, ListIterV):
        if v.i >= len(v.items):
            return None
        v.i += 1
        return v.items[v.i - 1]
    return _it_next_prev(m, it)


_sys.modules[__name__].it_next = it_next


@summary(r'<.* as Iterator>::skip_while::<.*>')
def iter_skip_while(m, mt, args, tys, dty):
    return SkipWhileV(args[0], args[1])


@summary(r'<.* as Iterator>::step_by')
def iter_step_by(m, mt, args, tys, dty):
    n = args[1]
    if is_sym(n):
        n = m.concretize(n, limit=64)
    return StepByV(args[0], n)


@summary(r'<.* as Iterator>::(cloned|peekable|fuse)(?:::<.*>)?')
def iter_identity_adaptors(m, mt, args, tys, dty):
    if mt.group(1) == 'cloned':
        return CopiedV(args[0])
    return args[0]


for _i, (_n, _rx, _fn) in enumerate(SUMMARIES):
    if _n == 'iter_rev_generic':
        def _rev_any(m, mt, args, tys, dty, _orig=_fn):
            it = args[0]
            if isinstance(deref(it), IterV):
                return _orig(m, mt, args, tys, dty)
            # rev over an adaptor chain: materialise (all sources here are finite slices / ranges)
            return ListIterV(list(reversed(_drain(m, it))))
        SUMMARIES[_i] = (_n, _rx, _rev_any)
    if _n == 'iter_next_back':
        def _next_back_any(m, mt, args, tys, dty, _orig=_fn):
            v = deref(args[0])
            if isinstance(v, IterV):
                return _orig(m, mt, args, tys, dty)
            if isinstance(v, ListIterV):
                if v.i >= len(v.items):
                    return NONE()
                return some(v.items.pop())
            raise Unsupported('next_back on %s' % type(v).__name__)
        SUMMARIES[_i] = (_n, _rx, _next_back_any)


@summary(r'<.* as Iterator>::(max|min)(?:::<.*>)?')
def iter_max_min(m, mt, args, tys, dty):
    items = [deref(e) for e in _drain(m, args[0])]
    if not items:
        return NONE()
    best = items[0]
    for x in items[1:]:
        if mt.group(1) == 'max':
            best = z3.If(x >= best, x, best) if (is_sym(x) or is_sym(best)) else max(x, best)
        else:
            best = z3.If(x < best, x, best) if (is_sym(x) or is_sym(best)) else min(x, best)
    return some(best)


@summary(r'core::char::methods::<impl char>::eq_ignore_ascii_case|(?:core::)?char::methods::<impl char>::eq_ignore_ascii_case|core::num::<impl u8>::eq_ignore_ascii_case')
def char_eq_ignore_case(m, mt, args, tys, dty):
    a, b = deref(args[0]), deref(args[1])

    def low(c):
        if not is_sym(c):
            return c + 32 if 65 <= c <= 90 else c
        return z3.If(z3.And(c >= 65, c <= 90), c + 32, c)
    la, lb = low(a), low(b)
    return la == lb



@summary(r'core::num::<impl (%s)>::(count_ones|count_zeros|is_power_of_two)' % INT)
def int_popcount(m, mt, args, tys, dty):
    """popcount of the two's-complement representation, abstracted: a fresh count p with the exact facts for p = 0, 1 and N
    (zero, a single bit, all ones) - which decide `== 1` / is_power_of_two style tests exactly - and 0 <= p <= N otherwise
    (an over-approximation for other uses: a spurious model is filtered by the native replay)"""
    ty, op = mt.group(1), mt.group(2)
    x = args[0]
    nbits = {'u8': 8, 'u16': 16, 'u32': 32, 'u64': 64, 'u128': 128, 'usize': 64, 'i8': 8, 'i16': 16, 'i32': 32, 'i64': 64, 'i128': 128, 'isize': 64}[ty]
    if not is_sym(x):
        ones = bin(x % 2 ** nbits).count('1')
    else:
        u = x
        if ty.startswith('i'):
            u = z3.If(x < 0, x + 2 ** nbits, x)
        ones = m.fresh('popcnt')
        m.assume(z3.And(ones >= 0, ones <= nbits, (ones == 0) == (u == 0), (ones == nbits) == (u == 2 ** nbits - 1),
                        (ones == 1) == z3.Or([u == 2 ** i for i in range(nbits)])))
    if op == 'count_ones':
        return ones
    if op == 'count_zeros':
        return nbits - ones
    return ones == 1



@summary(r'core::slice::<impl \[.*\]>::(copy_from_slice|clone_from_slice)')
def slice_copy_from_slice(m, mt, args, tys, dty):
    dst, src = as_slice(args[0]), as_slice(args[1])
    if len(dst) != len(src):
        raise Panic('SliceLen', 'copy_from_slice: source and destination lengths differ')
    for i in range(len(src)):
        dst.base[dst.lo + i] = copy_val(src.get(i))
    return Agg('tuple', '()', [])


@summary(r'core::num::<impl (%s)>::(max_value|min_value)' % INT)
def int_max_min_value(m, mt, args, tys, dty):
    lo, hi = INT_RANGE[mt.group(1)]
    return hi if mt.group(2) == 'max_value' else lo
