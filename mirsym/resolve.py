"""Spike: resolve MIR call-site paths to MIR bodies (definitions) using impl headers read from source spans
and unification of parameter types."""
import re, sys, collections, os, functools
from .mirparse import parse_mir, split_top, scan_top, match_close, find_top

from .mirgen import REPO
_src_cache = {}


def src_lines(path):
    if path not in _src_cache:
        _src_cache[path] = open(os.path.join(REPO, path)).read().split('\n')
    return _src_cache[path]


def span_text(path, l1, c1, l2, c2):
    L = src_lines(path)
    if l1 == l2:
        return L[l1 - 1][c1 - 1:c2 - 1]
    out = [L[l1 - 1][c1 - 1:]] + L[l1:l2 - 1] + [L[l2 - 1][:c2 - 1]]
    return ' '.join(x.strip() for x in out)


# ---------------------------------------------------------------- type terms

@functools.lru_cache(maxsize=None)
def strip_lifetimes(t):
    t = re.sub(r"::<'[A-Za-z_][A-Za-z0-9_]*>", '', t)       # ::<'a>
    t = re.sub(r"'[A-Za-z_][A-Za-z0-9_]*\s*,\s*", '', t)   # 'a,
    t = re.sub(r"<'[A-Za-z_][A-Za-z0-9_]*>", '', t)        # <'a>
    t = re.sub(r"&'[A-Za-z_][A-Za-z0-9_]*\s+", '&', t)      # &'a T
    t = re.sub(r"::<>", '', t)
    return t.strip()


@functools.lru_cache(maxsize=None)
def last_seg(path):
    """strip module prefixes from a nominal path:  num_bigint::BigInt -> BigInt ; std::ops::Add<u8> kept args"""
    # split at top-level '::'
    segs = []
    last = 0
    s = path
    idxs = [i for i, c in scan_top(s) if c == ':' and s.startswith('::', i)]
    # idxs contains both colons of each '::' ; take even ones
    cuts = idxs
    prev = 0
    for c in cuts:
        segs.append(s[prev:c])
        prev = c + 2
    segs.append(s[prev:])
    return segs


class Ty:
    """tiny type-term: ('ref', mut, T) | ('tuple', [..]) | ('slice', T) | ('array', T, n) | ('nom', name, [args]) | ('var', name) | ('raw', s)"""
    pass


PRIMS = {'u8', 'u16', 'u32', 'u64', 'u128', 'usize', 'i8', 'i16', 'i32', 'i64', 'i128', 'isize', 'bool', 'char', 'str', 'f32', 'f64', '()', '!'}


def parse_ty(s, tyvars=()):
    return _parse_ty(s, frozenset(tyvars))


@functools.lru_cache(maxsize=None)
def _parse_ty(s, tyvars):
    s = strip_lifetimes(s.strip())
    if s.startswith('&'):
        r = s[1:].strip()
        mut = False
        if r.startswith('mut '):
            mut = True
            r = r[4:]
        return ('ref', mut, parse_ty(r, tyvars))
    if s.startswith('*const ') or s.startswith('*mut '):
        return ('ptr', parse_ty(s.split(' ', 1)[1], tyvars))
    if s.startswith('(') and s.endswith(')') and match_close(s, 0) == len(s) - 1:
        inner = s[1:-1].strip()
        if not inner:
            return ('nom', '()', [])
        parts = [p for p in split_top(inner) if p]
        return ('tuple', [parse_ty(p, tyvars) for p in parts])
    if s.startswith('[') and s.endswith(']'):
        inner = s[1:-1]
        k = find_top(inner, ';')
        if k >= 0:
            return ('array', parse_ty(inner[:k], tyvars), inner[k + 1:].strip())
        return ('slice', parse_ty(inner, tyvars))
    if s.startswith('{closure@') or s.startswith('impl ') or s.startswith('dyn ') or s.startswith('for<') or s.startswith('fn(') or s.startswith('<'):
        return ('raw', s)
    # nominal path with optional generic args, possibly Path::<Args>
    segs = last_seg(s)
    name = segs[-1]
    args = []
    # turbofish style: Vec::<u8> prints as segs [..., 'Vec', '<u8>']
    if name.startswith('<') and len(segs) >= 2:
        args_s = name
        name = segs[-2]
        args = [parse_ty(p, tyvars) for p in split_top(args_s[1:-1]) if p]
    else:
        k = name.find('<')
        if k >= 0 and name.endswith('>'):
            args = [parse_ty(p, tyvars) for p in split_top(name[k + 1:-1]) if p]
            name = name[:k]
    if name in tyvars or name.startswith('$'):
        return ('var', name)
    return ('nom', name, args)


def unify(pat, ty, env):
    """pat may contain ('var',..). returns True/False, binding env"""
    if pat[0] == 'var':
        if pat[1] in env:
            return env[pat[1]] == ty or unify(env[pat[1]], ty, env)
        env[pat[1]] = ty
        return True
    if ty[0] == 'var':
        return True  # caller side generic: accept
    if pat[0] == 'raw' and pat[1].startswith('impl '):
        return True  # argument-position `impl Trait`: any concrete type
    if pat[0] != ty[0]:
        return False
    if pat[0] == 'ref':
        return pat[1] == ty[1] and unify(pat[2], ty[2], env)
    if pat[0] in ('slice', 'ptr'):
        return unify(pat[1], ty[1], env)
    if pat[0] == 'array':
        return unify(pat[1], ty[1], env)
    if pat[0] == 'tuple':
        return len(pat[1]) == len(ty[1]) and all(unify(a, b, env) for a, b in zip(pat[1], ty[1]))
    if pat[0] == 'nom':
        if pat[1] != ty[1]:
            return False
        if len(pat[2]) != len(ty[2]):
            # allow omitted defaults (e.g. Add vs Add<Self>)
            return not pat[2] or not ty[2]
        return all(unify(a, b, env) for a, b in zip(pat[2], ty[2]))
    if pat[0] == 'raw':
        return pat[1] == ty[1]
    return False


# ---------------------------------------------------------------- definitions

class Def:
    def __init__(self, body):
        self.body = body
        self.name = body.name
        self.method = None
        self.trait = None      # base name of trait or None
        self.header = None
        self.tyvars = set()
        self.kind = 'free'
        self.analyse()

    def analyse(self):
        n = self.name
        m = re.match(r'^(.*?)<impl at ([^:>]+):(\d+):(\d+): (\d+):(\d+)>::(.*)$', n)
        if m:
            path, l1, c1, l2, c2 = m.group(2), int(m.group(3)), int(m.group(4)), int(m.group(5)), int(m.group(6))
            self.header = span_text(path, l1, c1, l2, c2)
            self.tail = m.group(7)
            self.kind = 'impl'
            h = self.header.strip()
            if h.startswith('impl'):
                h2 = h[4:].strip()
                if h2.startswith('<'):
                    j = match_close(h2, 0)
                    gens = h2[1:j]
                    h2 = h2[j + 1:].strip()
                    for g in split_top(gens):
                        g = g.strip()
                        if g.startswith("'"):
                            continue
                        self.tyvars.add(re.split(r'[:\s]', g)[0])
                k = h2.find(' for ')
                # find ' for ' at top level
                kk = -1
                for i, c in scan_top(h2):
                    if h2.startswith(' for ', i):
                        kk = i
                        break
                w = h2.find(' where ')
                if w >= 0:
                    h2 = h2[:w]
                if kk >= 0:
                    self.trait_full = h2[:kk].strip()
                    self.self_ty = h2[kk + 5:].strip()
                    self.trait = parse_ty(self.trait_full)[1]
                else:
                    self.trait_full = None
                    self.self_ty = h2
            else:
                # derive(...) span: header is the trait name
                self.trait_full = h
                self.trait = last_seg(h)[-1]
                self.self_ty = None
        else:
            self.tail = n
        # method = last path segment of tail that is not closure/promoted
        self.method = self.tail
        # generic free fn tyvars: bare capitalised idents in param types that are not known nominals -> decided later


SELF_DEFAULT_TRAITS = {'Add', 'Sub', 'Mul', 'Div', 'Rem', 'AddAssign', 'SubAssign', 'MulAssign', 'DivAssign', 'RemAssign', 'Sum', 'Product',
                       'PartialEq', 'PartialOrd'}

KNOWN_NOMINALS = set('''BigDecimal BigDecimalRef WithScale InsigData NonDigitRoundingData FullScaleFormatter ParseBigDecimalError
Option Result Cow String Vec Box NonZero Formatter Arguments Chars Context RoundingMode Sign BigInt BigUint Ordering Range RangeTo RangeFrom RangeFull
Iter IterMut Rev Zip Copied Filter TakeWhile Take Repeat U32Digits Argument Error FpCategory ParseFloatError ParseIntError ParseBigIntError Utf8Error FromUtf8Error
Infallible Unique NonNull MaybeUninit ManuallyDrop MaybeDangling Number Self'''.split())


def collect_tyvars(ty, out):
    if ty[0] == 'nom':
        if not ty[2] and re.fullmatch(r'[A-Z][A-Za-z0-9_]*|__[A-Z]', ty[1]) and ty[1] not in KNOWN_NOMINALS and ty[1] not in PRIMS:
            out.add(ty[1])
        for a in ty[2]:
            collect_tyvars(a, out)
    elif ty[0] in ('ref',):
        collect_tyvars(ty[2], out)
    elif ty[0] in ('slice', 'ptr', 'array'):
        collect_tyvars(ty[1], out)
    elif ty[0] == 'tuple':
        for a in ty[1]:
            collect_tyvars(a, out)


class Index:
    def __init__(self, bodies):
        self.defs = [Def(b) for b in bodies if b.kind == 'fn']
        self.by_method = collections.defaultdict(list)
        self._cache = {}
        for d in self.defs:
            # discover tyvars from params
            tv = set(d.tyvars)
            for _, t in d.body.params:
                collect_tyvars(parse_ty(t), tv)
            d.tyvars = tv
            d.param_tys = [parse_ty(t, tv) for _, t in d.body.params]
            self.by_method[d.method].append(d)

    def resolve(self, func, arg_tys):
        key = (func, tuple(arg_tys))
        c = self._cache.get(key)
        if c is None:
            c = self._resolve(func, arg_tys)
            self._cache[key] = c
        return list(c)

    def _resolve(self, func, arg_tys):
        """func: call-site path string; arg_tys: list of type strings of actual args"""
        f = strip_lifetimes(func)
        trait = None
        # strip trailing turbofish on method
        method_generics = None
        if f.startswith('<'):
            j = match_close(f, 0)
            inner = f[1:j]
            rest = f[j + 1:]
            assert rest.startswith('::'), func
            method = rest[2:]
            k = find_top(inner, ' as ')
            self_s = inner
            trait_ty = None
            if k >= 0:
                trait_ty = parse_ty(inner[k + 4:])
                trait = trait_ty[1]
                self_s = inner[:k]
            inherent = k < 0
        else:
            segs = last_seg(f)
            method = segs[-1]
            if method.startswith('<') and len(segs) >= 2:   # foo::<T>
                method_generics = method
                method = segs[-2]
                segs = segs[:-1]
            inherent = True
            prefix = '::'.join(segs[:-1])
        mg = method.find('::<')
        if mg >= 0:
            method = method[:mg]
        cands = []
        # method key in defs: tail may be 'name' or 'module::name'
        pool = []
        for key, ds in self.by_method.items():
            if key == method or key.endswith('::' + method) or (not f.startswith('<') and (f == key or strip_lifetimes(key) == f)):
                pool += ds
        actual = [('var', '?') if t in ('?', '_UNKNOWN') else parse_ty(t) for t in arg_tys]
        for d in pool:
            if len(d.param_tys) != len(actual):
                continue
            if trait is not None and d.kind == 'impl' and d.trait != trait and not str(d.trait).startswith('$'):
                continue
            if trait is None and d.kind == 'impl' and d.trait is not None and f.startswith('<'):
                continue
            if trait is None and not f.startswith('<') and d.kind == 'impl' and d.trait is not None:
                # inherent-style path  Type::method  must not match trait impls
                continue
            if trait is not None and d.kind != 'impl':
                continue
            if not f.startswith('<'):
                # `Type::method` names an inherent method of Type; `module::name` / `name` names a free function
                psegs = last_seg(prefix) if prefix else ['']
                lastp = psegs[-1]
                if lastp.startswith('<') and not lastp.startswith('<impl ') and len(psegs) >= 2:
                    lastp = psegs[-2]          # Type::<Args>::method
                mo_impl = re.match(r'^<impl (.*)>$', lastp)
                if mo_impl:
                    owner = re.sub(r'<.*$', '', mo_impl.group(1).split('::')[-1].lstrip('&'))     # `module::<impl Type>::method`
                else:
                    owner = re.sub(r'<.*$', '', lastp)
                if owner[:1].isupper():
                    if d.kind != 'impl' or d.self_ty is None or parse_ty(d.self_ty, d.tyvars)[1:2] != (owner,):
                        continue
                elif d.kind == 'impl':
                    continue
            env = {}
            if f.startswith('<') and d.kind == 'impl' and d.self_ty is not None:
                if not unify(parse_ty(d.self_ty, d.tyvars), parse_ty(self_s), env):
                    continue
                if trait_ty is not None and d.trait_full and trait_ty[0] == 'nom':
                    ht = parse_ty(d.trait_full, d.tyvars)
                    if ht[0] == 'nom' and trait_ty[1] in SELF_DEFAULT_TRAITS:
                        # `Trait` without arguments means `Trait<Self>` for the operator / Sum / comparison traits
                        cargs = trait_ty[2] or [parse_ty(self_s)]
                        hargs = ht[2] or [parse_ty(d.self_ty, d.tyvars)]
                        if len(cargs) != len(hargs) or not all(unify(a, b, env) for a, b in zip(hargs, cargs)):
                            continue
                    elif ht[0] == 'nom' and ht[2] and trait_ty[2] and len(ht[2]) == len(trait_ty[2]):
                        if not all(unify(a, b, env) for a, b in zip(ht[2], trait_ty[2])):
                            continue
            if all(unify(p, a, env) for p, a in zip(d.param_tys, actual)):
                cands.append((d, env))
        if len(cands) > 1 and not f.startswith('<') and prefix:
            # several free functions of the same name in different modules: the call path's module decides
            modseg = last_seg(prefix)[-1]
            narrowed = [c for c in cands if c[0].kind != 'impl' and strip_lifetimes(c[0].name).split('::')[-2:-1] == [modseg]]
            if narrowed:
                cands = narrowed
        return cands


def local_ty(body, op):
    if op.kind in ('copy', 'move'):
        p = op.val
        if not p.proj:
            return body.locals.get(p.local)
        # type of projection: take annotation on last field proj, else unknown
        last = p.proj[-1]
        if last[0] == 'field':
            return last[2]
        if last[0] == 'deref':
            # type of base minus one ref
            base_t = None
            if len(p.proj) == 1:
                base_t = body.locals.get(p.local)
            elif p.proj[-2][0] == 'field':
                base_t = p.proj[-2][2]
            if base_t:
                bt = strip_lifetimes(base_t)
                if bt.startswith('&mut '):
                    return bt[5:]
                if bt.startswith('&'):
                    return bt[1:]
        return None
    if op.kind == 'const':
        v = op.val
        m = re.match(r'^-?[0-9_]+_?([iu](?:8|16|32|64|128|size))$', v)
        if m:
            return m.group(1)
        if v in ('true', 'false'):
            return 'bool'
        if re.match(r'^-?[0-9.e+-]+f(32|64)$', v):
            return 'f' + re.search(r'f(32|64)$', v).group(1)
        if v.startswith('"'):
            return '&str'
        if v.startswith("'"):
            return 'char'
        if v.startswith('b"'):
            return '&[u8]'
        return None
    return None


if __name__ == '__main__':
    bodies, consts, allocs, errors = parse_mir(open(sys.argv[1]).read())
    idx = Index(bodies)
    stats = collections.Counter()
    ext = collections.Counter()
    amb = []
    for b in bodies:
        for blk in b.blocks.values():
            t = blk.term
            if t is None or t.kind != 'call':
                continue
            func = t.data['func']
            tys = [local_ty(b, a) for a in t.data['args']]
            if any(x is None for x in tys):
                stats['argtype-unknown'] += 1
                tys = [x or '_UNKNOWN' for x in tys]
            try:
                c = idx.resolve(func, tys)
            except Exception as e:
                stats['error'] += 1
                print('ERR', func, repr(e))
                continue
            if len(c) == 1:
                stats['unique'] += 1
            elif len(c) == 0:
                stats['none'] += 1
                ext[func] += 1
            else:
                stats['ambiguous'] += 1
                amb.append((func, tys, [x[0].name for x in c]))
    print(stats)
    for a in amb[:30]:
        print('AMB', a)
    # which unresolved look internal?
    internal = [(k, v) for k, v in ext.items() if 'BigDecimal' in k.split('::')[0] or k.split('::')[0] in ('arithmetic',) or re.match(r'^[a-z_]+(::<.*>)?$', k)]
    print('unresolved that look internal:', len(internal))
    for k, v in sorted(internal)[:80]:
        print(' ', v, k)
