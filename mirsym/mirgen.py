"""Regenerate the MIR text dump of /repo's *current working tree* (content-hash cached).

The dump is produced by the pre-installed nightly:
    cargo +nightly rustc --offline --lib [--features F] --target-dir T -- \
        -Zunpretty=mir -C debug-assertions=off -C overflow-checks=on
The target directory lives outside /repo and /verif (under $VERIF_SCRATCH or /var/tmp) and only
holds compiled dependencies; the fingerprint of the bigdecimal crate itself is deleted before every
run so that rustc really re-reads the sources.  The text dump is cached in /verif/.cache/mir keyed
by SHA-256 over every file that can influence it.
"""
import fcntl
import hashlib
import os
import shutil
import subprocess
import sys
import time

REPO = os.environ.get('VERIF_REPO', '/repo')
VERIF = os.path.dirname(os.path.dirname(os.path.abspath(__file__)))
CACHE = os.path.join(VERIF, '.cache', 'mir')
ALT_REPO = os.path.realpath(REPO) != '/repo'
if ALT_REPO:
    # a scratch worktree given through VERIF_REPO (seed testing): its own scratch directory, cache and crate copies, so
    # that nothing built from it can be picked up by a run against /repo
    import hashlib as _hl
    _tag = _hl.sha256(os.path.realpath(REPO).encode()).hexdigest()[:10]
    SCRATCH = os.environ.get('VERIF_SCRATCH', '/var/tmp/bigdecimal-verif') + '-alt-' + _tag
    CACHE = os.path.join(SCRATCH, 'mir-cache')
else:
    SCRATCH = os.environ.get('VERIF_SCRATCH', '/var/tmp/bigdecimal-verif')
# the scratch directory does not survive a fresh restore while the MIR cache may: never assume one implies the other
os.makedirs(SCRATCH, exist_ok=True)


def source_files(repo=None):
    repo = repo or REPO
    out = []
    for root, dirs, files in os.walk(os.path.join(repo, 'src')):
        dirs.sort()
        for f in sorted(files):
            out.append(os.path.join(root, f))
    for f in ('build.rs', 'Cargo.toml', 'Cargo.lock'):
        p = os.path.join(repo, f)
        if os.path.exists(p):
            out.append(p)
    return out


def tree_hash(repo=None, extra=''):
    repo = repo or REPO
    h = hashlib.sha256()
    for p in source_files(repo):
        h.update(os.path.relpath(p, repo).encode())
        h.update(b'\0')
        with open(p, 'rb') as fh:
            h.update(fh.read())
        h.update(b'\0')
    h.update(extra.encode())
    return h.hexdigest()


def config_key(features, env, debug_assertions):
    return 'features=%s;env=%s;da=%s' % (','.join(sorted(features)), ';'.join('%s=%s' % kv for kv in sorted(env.items())),
                                         debug_assertions)


def mir_text(features=(), env=None, debug_assertions=False, repo=None, verbose=False):
    """returns (text, info) for the current working tree of `repo`"""
    repo = repo or REPO
    ambient = {k: v for k, v in os.environ.items() if k.startswith('RUST_BIGDECIMAL_')}
    env = dict(ambient, **(env or {}))      # build-time configuration: ambient variables overridden by the explicit ones
    key = config_key(features, env, debug_assertions)
    digest = tree_hash(repo, key)
    os.makedirs(CACHE, exist_ok=True)
    path = os.path.join(CACHE, digest + '.mir')
    info = {'sha256_of_inputs': digest, 'config': key, 'cached': True, 'gen_s': 0.0}
    if os.path.exists(path) and os.path.getsize(path) > 1000:
        return open(path).read(), info
    os.makedirs(SCRATCH, exist_ok=True)
    tdir = os.path.join(SCRATCH, 'mirtarget-' + hashlib.sha256(key.encode()).hexdigest()[:12])
    lock = open(os.path.join(SCRATCH, 'mirgen.lock'), 'w')
    fcntl.flock(lock, fcntl.LOCK_EX)
    try:
        if os.path.exists(path) and os.path.getsize(path) > 1000:
            return open(path).read(), info
        t0 = time.time()
        # force recompilation of the crate under analysis (never of its dependencies)
        fp = os.path.join(tdir, 'debug', '.fingerprint')
        if os.path.isdir(fp):
            for d in os.listdir(fp):
                if d.startswith('bigdecimal-'):
                    shutil.rmtree(os.path.join(fp, d), ignore_errors=True)
        cmd = ['cargo', '+nightly', 'rustc', '--offline', '--lib', '--target-dir', tdir]
        if features:
            cmd += ['--features', ','.join(features)]
        cmd += ['--', '-Zunpretty=mir', '-C', 'debug-assertions=' + ('on' if debug_assertions else 'off'), '-C', 'overflow-checks=on']
        e = dict(os.environ)
        e.update(env)
        e['CARGO_NET_OFFLINE'] = 'true'
        p = subprocess.run(cmd, cwd=repo, env=e, stdout=subprocess.PIPE, stderr=subprocess.PIPE)
        text = p.stdout.decode()
        if p.returncode != 0 or len(text) < 1000:
            sys.stderr.write(p.stderr.decode()[-4000:])
            raise RuntimeError('MIR generation failed (rc=%d, %d bytes)' % (p.returncode, len(text)))
        tmp = path + '.tmp%d' % os.getpid()
        with open(tmp, 'w') as fh:
            fh.write(text)
        os.replace(tmp, path)
        info['cached'] = False
        info['gen_s'] = round(time.time() - t0, 2)
        if verbose:
            sys.stderr.write('[mirgen] %s -> %d lines in %.1fs\n' % (key, text.count('\n'), info['gen_s']))
        # keep the cache small
        files = sorted((os.path.getmtime(os.path.join(CACHE, f)), f) for f in os.listdir(CACHE) if f.endswith('.mir'))
        for _, f in files[:-40]:
            os.remove(os.path.join(CACHE, f))
        return text, info
    finally:
        fcntl.flock(lock, fcntl.LOCK_UN)
        lock.close()


if __name__ == '__main__':
    feats = tuple(a for a in sys.argv[1:] if '=' not in a)
    env = dict(a.split('=', 1) for a in sys.argv[1:] if '=' in a)
    t, info = mir_text(feats, env, verbose=True)
    print(info, len(t))
