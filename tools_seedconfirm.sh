#!/bin/bash
# usage: [DEMO_ENV="VAR=val"] [DEMO_ARGS="--features serde-json"] tools_seedconfirm.sh <id> <PROP> : independently confirm a seeded change produced in /tmp/wt_<id> + /tmp/seed_<id>,
# store it under /verif/seeded/<id>/ and remove the scratch worktree.
set -u
id="$1"; prop="$2"
wt=/tmp/wt_$id; sd=/tmp/seed_$id
cd $wt || exit 3
git checkout -q -- . ; git clean -fdq tests 2>/dev/null
git apply $sd/patch.diff || { echo "patch does not apply"; exit 3; }
suite=$(cargo test --offline 2>&1 | grep -E "^test result" | tr '\n' ' ')
mkdir -p tests; cp $sd/demo.rs tests/demo.rs
with=$(env ${DEMO_ENV:-} cargo test --offline ${DEMO_ARGS:-} --test demo 2>&1 | grep -E "^test result" | tr '\n' ' ')
git checkout -q -- src
without=$(env ${DEMO_ENV:-} cargo test --offline ${DEMO_ARGS:-} --test demo 2>&1 | grep -E "^test result" | tr '\n' ' ')
rm -rf tests
echo "suite(with change): $suite"; echo "demo with change: $with"; echo "demo without change: $without"
mkdir -p /verif/seeded/$id
cp $sd/patch.diff $sd/demo.rs /verif/seeded/$id/
cp $sd/notes.md /verif/seeded/$id/notes.md 2>/dev/null
python3 - "$id" "$prop" "$suite" "$with" "$without" <<'PY'
import json, sys
id, prop, suite, w, wo = sys.argv[1:6]
json.dump({"id": id, "breaks_property": prop, "suite_with_change": suite.strip(), "demo_with_change": w.strip(), "demo_without_change": wo.strip(),
           "confirmed_by": "tools_seedconfirm.sh in the scratch worktree (cargo test --offline; cargo test --offline --test demo with and without the patch; demo environment/flags: %s %s)" % (__import__("os").environ.get("DEMO_ENV",""), __import__("os").environ.get("DEMO_ARGS","")),
           "needs_to_manifest": "see notes.md", "detected_by": "to be filled by tools_seedtest.sh runs (DESIGN.md section 'Seeded changes')"},
          open('/verif/seeded/%s/meta.json' % id, 'w'), indent=1)
PY
cd /; git -C /repo worktree remove --force $wt; rm -rf $sd
