#!/bin/bash
# usage: tools_seedtest.sh <patch.diff> <PROP> [<PROP>...]   -- apply a seeded change to /repo, run the checks, undo it
set -u
patch="$1"; shift
git -C /repo apply "$patch" || { echo "patch does not apply"; exit 3; }
for p in "$@"; do
  (cd /verif && timeout 1800 ./check "$p" > /tmp/seedtest_$p.log 2>&1; echo "EXIT $?" >> /tmp/seedtest_$p.log)
  echo "== $p: $(grep -c '^VIOLATION' /tmp/seedtest_$p.log) violation lines; $(tail -1 /tmp/seedtest_$p.log)"
  grep -E "^VIOLATION|^  \{" /tmp/seedtest_$p.log | head -4 | cut -c1-400
done
git -C /repo checkout -- .
git -C /repo status --short | head -3
