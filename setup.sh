#!/bin/bash
# Offline setup: warm the MIR cache and build the native replay binary from /repo's current tree.
set -e
cd "$(dirname "$0")"
export CARGO_NET_OFFLINE=true
export PYTHONPATH="$PWD"
python3-vt -m mirsym.mirgen
python3-vt -m mirsym.mirgen serde-json
python3-vt - <<'PY'
import sys
sys.path.insert(0, '.')
from mirsym import harness as H
H.get_program()
print('replay binary:', H.build_replay('release'))
print(H.replay_lines(['unop\thalf\t7:1']))
try:
    print('serde replay:', H.replay_lines(['serde\tstring\t123:2'], cfg_env={'VERIF_REPLAY_FEATURES': 'serde'}))
except Exception as e:      # only needed to confirm C17 counterexamples
    print('serde replay binary not built:', e)
PY
echo "setup ok"
