#!/bin/bash
# Offline setup: warm the MIR cache and build the native replay binary from /repo's current tree.
set -e
cd "$(dirname "$0")"
export CARGO_NET_OFFLINE=true
export PYTHONPATH="$PWD"
python3-vt -m mirsym.mirgen
python3-vt -m mirsym.mirgen serde-json
python3-vt - <<'PY'
import sys
sys.path.insert(0, '.')
from mirsym import harness as H
H.get_program()
print('replay binary:', H.build_replay('release'))
print(H.replay_lines(['unop\thalf\t7:1']))
PY
echo "setup ok"
