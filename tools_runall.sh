#!/bin/bash
# usage: tools_runall.sh [SEED] PROP...  -- run the quick checks one after another, print one line each
seed="$1"; shift
for p in "$@"; do
  s=$(date +%s)
  (cd /verif && VERIF_SEED=$seed timeout 1800 ./check "$p" > /tmp/runall_$p.log 2>&1; echo "EXIT $?" >> /tmp/runall_$p.log)
  e=$(( $(date +%s) - s ))
  echo "$p seed=$seed ${e}s $(tail -1 /tmp/runall_$p.log) | $(grep -E "^$p tier" /tmp/runall_$p.log | cut -c1-160)"
done
